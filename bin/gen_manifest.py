#!/usr/bin/env python3
"""Regenerates /verif/MANIFEST.json from the table below (kept next to the code
so that the manifest, the checks and DESIGN.md stay in step)."""
import json, subprocess

props = [json.loads(l)["id"] for l in open("/verif/properties.jsonl")]

MODEL_NOTE = ("Trusted base: the harness's own wire codec, reference model and framing model (written from the property "
              "statements, DESIGN.md sections 6 and 14); the simulated Timer / transport; DashMap's table logic is the "
              "original 5.5.3 code with simulator-owned hasher seed and shard count. Sampling, not proof.")

CHECKS = {
 "C01": dict(cat="exploration", ref="7 C01",
   text="Seeded simulated histories (10..5000 commands over 2-6 arbitrary keys, binary values, any flags, TTLs and clock jumps, both eviction policies with an unreachable limit) run through the real codec/handler/store (ring H) and through the whole server on the simulated transport with random segmentation (ring N, 1 run in 4); every retrieval is compared with an executable reference model. Right level: the property quantifies over histories and inputs, which seeded exploration samples far beyond the unit tests; no finite enumeration exists.",
   tech="deterministic simulation (seeded histories, simulated clock and transport) against a reference model"),
 "C02": dict(cat="exploration", ref="7 C02",
   text="Seeded histories biased to CAS-carrying variants of every mutation with current / stale-but-issued / current+1 / arbitrary / u64::MAX tokens; the model observes acknowledged CAS values and checks: success iff current, failure is 0x02 and changes nothing, every new CAS is new within the lifetime, retrievals report the acknowledged CAS. Rings H and N; one run in ten is a ring-T program (2-3 client threads, seeded schedule) of set / cas-set with the current or a stale token / delete with and without CAS / get on one key: within one lifetime no two acknowledged mutations share a token, and a history with CAS-carrying commands must be linearizable.",
   tech="deterministic simulation against a CAS-observing reference model; baton-scheduled concurrent programs with a token-uniqueness oracle and a linearizability checker"),
 "C05": dict(cat="exploration", ref="7 C05",
   text="Seeded histories of stores with TTLs 0..2^32-1 s under a simulated clock whose advances are aimed at expiry-1, expiry, expiry+1 and far beyond (ring H, arbitrary jumps) and under the real 1 Hz SystemTimer on tokio's virtual time (ring N, ticks landing between TCP segments; in half of those runs long advances are one clock jump, as after a stall of the timer thread, and the timer has to catch up); every command kind is issued on live, just-expired and long-expired items, with delayed flushes in the mix. Exact expiry instants are asserted (no slack); the server clock itself is checked against elapsed virtual time. One run in ten is a ring-T program: 2-3 client threads under a seeded schedule race every command kind on a key whose item is one second inside its TTL, exactly at expiry, or past it and not yet collected (clock fixed while they overlap); nothing returned may derive from the expired value, every command sees the key absent when nothing can create it and present when it is alive and nothing deletes it.",
   tech="deterministic simulation with simulated clock / virtual-time SystemTimer against a reference model with exact expiry intervals; baton-scheduled concurrent programs with a direct expiry oracle"),
 "C06": dict(cat="exploration", ref="7 C06",
   text="Reference-model check under a workload biased to add/replace/append/prepend hitting absent, present, expired, deleted-and-recreated and flushed keys, each mutation followed (60%) by a verifying get so that a wrong value/flags/CAS is pinned on the command that caused it. The property has no schedule or fault dimension of its own; the simulator contributes connections, segmentation and the clock as context.",
   tech="deterministic simulation (rings H/N) against a reference model; workload-biased"),
 "C07": dict(cat="exploration", ref="7 C07",
   text="Reference-model check under a counter-heavy workload: stored decimals across the u64 range and odd numerals (leading zeros, signs, spaces, empty, non-UTF-8, 20+ digits), extreme deltas/initials, expiration 0xffffffff, arbitrary opaque and CAS; wrap-around and saturation arithmetic, returned number = stored text = later get, flags kept, creation rule, 0x06 on non-numeric. No schedule/fault dimension of its own.",
   tech="deterministic simulation (rings H/N) against a reference model; workload-biased"),
 "C08": dict(cat="exploration", ref="7 C08",
   text="Reference-model check under a delete/flush-heavy workload over 3-6 keys: deletes with CAS 0 / matching / stale, immediate and delayed flushes (delay 1..1e6 s), clock advances across the flush deadline, re-stores after the flush. One run in ten is a ring-T program under a seeded schedule: deletes (CAS 0 / current / stale) racing set / cas-set / get on one key must linearize, and a failure that disappears when the deletes are left free is reported as the deletes' fault; immediate flushes racing stores over 3-4 keys obey real-time order (nothing acknowledged before a flush is read after it returned; a store invoked after every flush returned survives).",
   tech="deterministic simulation (rings H/N) against a reference model; baton-scheduled concurrent programs with a linearizability checker (delete attribution) and a real-time flush oracle"),
 "C09": dict(cat="exploration", ref="7 C09",
   text="Metamorphic simulation: each seeded pipelined stream (every opcode, wrong-shape frames, now and then an oversized one, one stream in eight with a large in-limit store of 4 KiB .. 66 KB mid-pipeline) is delivered to a fresh server one-shot and then under every single cut point, all pairs of cuts at the decoder for short streams (sampled pairs at the socket), byte-at-a-time and random cuttings; response bytes, close state and final store dump must equal the one-shot reference, and on the reference every frame must occupy exactly 24+body_length bytes or the connection closes there. Segmentation is the schedule dimension the simulated transport owns.",
   tech="deterministic simulation: simulator-chosen TCP segmentation, metamorphic comparison + framing model"),
 "C11": dict(cat="exploration", ref="7 C11",
   text="Every response the simulator receives (all rings, all checks) is re-parsed by an independent response parser; this check drives a workload maximising opcode x outcome x store-state x size coverage (values up to 300 KB, lengths at 2^12 / 2^15 / 2^16 / 2^17 +- 1) (incl. too-large, not-supported, non-numeric, key-exists) and validates each frame against its request (a response carrying the head request's opaque under another opcode is 'opcode-not-echoed'). No schedule/fault dimension of its own.",
   tech="deterministic simulation (rings H/N) with an independent response validator"),
 "C12": dict(cat="exploration", ref="7 C12",
   text="Whole server on the simulated transport: pipelines mixing loud/quiet variants of every opcode, unimplemented and unknown opcodes, quit/quitq anywhere, 1-3 connections, random segmentation, pipelines of several KiB in few pieces, now and then a request above a small item limit mid-pipeline; after every event the server is run to quiescence, so 'no response' is decided rather than timed out; responses must arrive in request order, one per loud request of a known opcode, quiet rules in both directions (a quiet error must be answered, a quiet success of any store / concat / counter / delete / flush must not), quit rules, nothing after quit executed (observer connection).",
   tech="deterministic simulation: whole server on simulated transport, run-to-quiescence, framing + reference model"),
 "C13": dict(cat="exploration", ref="7 C13",
   text="Whole server on the simulated transport under item limits 1 KiB..4 MiB: a request with body length limit-1 / limit / limit+1 / 2x / 16 MiB of every opcode of the protocol table (loud, quiet, quit/quitq, unimplemented) at any pipeline position, with the simulator choosing exactly how many body bytes are readable when the oversized header is parsed (0, 1, half+-1, all-1, all, all + following requests, around the 4 KiB initial buffer); 0x03 above the limit only, exactly body_length bytes discarded, following requests answered in order, store unchanged.",
   tech="deterministic simulation: simulator-controlled split of the oversized body between reads"),
 "C03": dict(cat="exploration", ref="7 C03",
   text="Ring T: 2-3 clients x 1-2 operations from get / set / cas-set (current, stale) / delete (with, without CAS) on one key (+ bystander) against every initial state (absent, present, present-but-expired), executed on real threads under a baton scheduler that owns every DashMap shard-lock acquire, every access to the CAS counter, every clock read and operation invoke/return; seeded random and PCT schedules; each history (+ final sequential reads) is checked for linearizability against the reference model by exhaustive search over real-time-respecting orders. Right level: the property quantifies over interleavings at the store's internal step granularity, which the scheduler samples and replays exactly; the OS-scheduled stress half of the quantifier is runtime monitoring and is not done.",
   tech="deterministic simulation: baton scheduler over real threads (scheduler-owned shard locks and atomics), seeded schedule search, linearizability checker",
   note="Trusted base: scheduler sequentially consistent; DashMap's parking-lot lock taken only after the scheduler granted it; reference model of section 6.1. Sampling of schedules, not enumeration."),
 "C04": dict(cat="exploration", ref="7 C04",
   text="Ring T as for C03 with add / replace / append / prepend / incr / decr mixed with get / set / delete (with and without CAS); histories are checked for linearizability under the atomic specification. memc-rs implements all six commands as get-then-set: histories that are not linearizable atomically but are explained exactly by splitting the named commands into their read step and their write step (relaxed specification) are attributed to the open known findings rmw-window:<command>; any history that even the relaxed specification cannot explain is a VIOLATION.",
   tech="deterministic simulation: baton scheduler, seeded schedule search, linearizability checker with relaxed-spec attribution of known findings",
   note="Trusted base as C03; the relaxed specification (lin.rs) models memc-rs's Cache::set semantics and is used only to decide whether a failing history is one of the recorded read-modify-write windows."),
 "C14": dict(cat="exploration", ref="7 C14",
   text="Sequential (ring H): workloads of stores/overwrites/appends/counter updates/deletes/flushes/expiries under random eviction with limits 0..100000 and record sizes around and above the limit; after every single command the sum of Record::len() over the inner store must be <= limit + record just written and a record just acknowledged must be present. Concurrent (ring T, 1 run in 5): 2-3 clients x 1-3 stores/deletes under seeded schedules; at the end the sum must be <= limit + one record per store that overlapped another store + the last store, and after each of 1-2 sequential 'settle' stores that follow the sequential bound must hold again. Victim choice is seeded (hook), iteration order deterministic. A run that never returns (the sweep spinning) is reported as C14:hang by the wall-clock watchdog.",
   tech="deterministic simulation: per-command invariant on ring H + scheduler-controlled concurrent programs on ring T"),
 "C15": dict(cat="exploration", ref="7 C15",
   text="Ring H, long workloads (30..10000 commands of every kind) over a live set of 2-5 small items under a limit 20-1000x the live set (one workload in three: a limit its own accounted usage reaches exactly, found by a dry run). A record of a key the command does not address that vanishes during a store was evicted, which is only allowed when accounted usage + the record being written exceeds the limit. After every command accounted usage (hook accessor) minus stored bytes must not grow; every growth is attributed to an exact mechanism (overwrite adds without subtracting the replaced record; failed conditional store still counted; expired item collected on access; flush bypasses the accounting) by matching the amount, and anything not matched exactly is a VIOLATION (drift:unexplained). Concurrent side (ring T, 1 run in 4): 2-3 clients of fresh-key stores, deletes of existing keys and gets under limits 80-400 bytes; none of the recorded mechanisms can occur there and the recorded races only lower the counter, so accounted usage > stored bytes afterwards is a VIOLATION. For a plain store that starts above the limit the sweep's arithmetic is checked exactly. Behavioural form: a model-live key that misses is a VIOLATION unless the accounted usage had exceeded the limit (the recorded consequence of the drift). Every sequential run also builds the store the way the server does (MemcacheStoreBuilder::from_config, random eviction) under a limit drawn from 2^20 .. 2^64-1 (around 2^32 in particular), stores 2-16 records of 32 bytes and expects each back. The four mechanisms and the consequence are open known findings with embedded 2-3 command histories.",
   tech="deterministic simulation: per-command accounting invariant with exact attribution + reference model; baton-scheduled concurrent programs with an over-count oracle"),
 "C16": dict(cat="exploration", ref="7 C16",
   text="Ring T: 2-3 clients issuing any commands (single-key, multi-key, immediate and delayed flush over all shards, stores that trigger eviction sweeps, expiry collection) under seeded random / PCT schedules; the scheduler keeps the holder table of every shard lock and only grants a thread whose next acquire can succeed, so 'no thread can be granted, some unfinished' is an exact deadlock (reported with who waits for which lock held by whom); a step budget (20000 scheduling points, programs need < 500) reports livelock; a 30 s wall-clock watchdog reports a step that never reaches a scheduling point.",
   tech="deterministic simulation: baton scheduler with exact deadlock detection and step budget",
   note="Trusted base: the scheduler's holder table mirrors DashMap's lock protocol (read/write/try/downgrade); the OS-scheduled stress half of the quantifier is not done."),
 "C10": dict(cat="exploration", ref="7 C10",
   text="Ring H: the full grid of header fields for every opcode 0..255 (key length {0..3, 8, 250, 251, 65535} x every extras length around the parsers' 4/8/20-byte blocks x body length small, around key+extras, around the item limit and up to 2^32-1 x magic/data type x CAS x bytes present), fed one-shot / header-first / in small chunks to the real decoder, every decoded request executed and encoded, under overflow checks. Ring N: byzantine clients (noise, valid frames with one field replaced by an extreme, short self-consistent frames of any opcode, counters with extreme operands, bit flips) with random segmentation against the whole server, then silence past the idle timeout and a well-behaved client; one run in 2000 streams a request announcing 0.5-2 MiB (limit 1-4 KiB) in 4-16 KiB pieces. Oracle: no panic, quiescence within the poll budget, listed-invalid frames never executed, decode buffer capacity bounded (ring H), no length-proportional allocation and a bound on the memory held for a connection while an oversized body streams in (per-thread counting allocator, ring N), connection released, server still serving.",
   tech="deterministic simulation: enumerated header grid on the decoder + seeded byzantine streams on the simulated transport, counting allocator"),
 "C17": dict(cat="exploration", ref="7 C17",
   text="Whole server on the simulated transport for limits 1-4 and idle timeouts 1-10 s: seeded histories of 3..10 x limit connection lifecycles with overlapping arrivals, each ending by client close, close after work, quit, quitq, close mid-header, close mid-body, invalid magic, unknown opcode, oversized item then close, close inside an oversized body, idle timeout (virtual time; silence with an empty buffer, mid header, mid body, after a complete request, with a partial request behind a complete one, inside an oversized body, after an oversized request), reset or reset mid-request, with noop probes in between. Invariants at quiescence after every event: served <= limit; if any connection waits exactly limit are served; served connections answer, unserved do not. Bounded liveness after the last fault: exactly limit fresh connections are served, one more only after a slot is freed.",
   tech="deterministic simulation: connection-lifecycle fault injection on the simulated transport with run-to-quiescence invariants and bounded liveness"),
 "C18": dict(cat="fault_enumeration", ref="7 C18",
   text="For every seeded pipelined stream (counter increments, stores, appends; loud and quiet) EVERY cut offset 0..=length x EVERY fault kind (orderly close, half-close, abortive reset, abortive reset while the server is blocked writing with further requests buffered, corrupted header byte, truncation followed by silence to the idle timeout) runs on a fresh whole server with an observer connection; the observer must see exactly the state after the completely sent requests (after a reset: after a prefix), well-formed answers, a released faulty connection and a serving server (a run that never returns - a connection task spinning after the fault - is reported as C18:hang by the wall-clock watchdog). The enumeration over cut points and fault kinds of each generated stream is complete; streams are sampled.",
   tech="deterministic simulation with fault enumeration: every byte offset x fault kind per stream on the simulated transport"),
 "C19": dict(cat="exploration", ref="7 C19",
   text="Paired simulated runs from one seed: program P and P' with a random subset of positions switched between loud and quiet opcodes, each on a fresh identical server (ring H; 1 pair in 5 on ring N with identical segmentation), with the CAS tokens P resolved carried over literally, followed by dumps of every key under a common clock-advance schedule. Untoggled positions and all dumps (values, flags, CAS, expiry) must be answered byte-identically; toggled positions: errors identical apart from the opcode, quiet success / quiet miss silent, quiet hit payload = loud hit payload. Metamorphic; no fault dimension of its own.",
   tech="deterministic simulation: paired (metamorphic) runs on identical simulated servers"),
 "C20": dict(cat="exploration", ref="7 C20",
   text="(a) deterministic configuration differential on ring N: one seeded program with one segmentation on a reference server and on servers differing only in eviction policy (none / random, unreached limit), memory limit, item size limit, connection limit, backlog, shard count, hash and victim seeds, and whether the timer thread was stalled during long advances: responses byte-identical, and the server clock follows elapsed seconds. (b) runtime flavour and thread count only change which store-step interleavings occur: sampled by ring T (C03, C04, C14, C16). (c) start-up path: cli::parser::parse + runtime_builder::create_memcrs_server executed for real over --runtime-type x --threads {1,2,8} x --eviction-policy x item size x connection limit x memory limit (512 B .. 8 GiB) x backlog, listeners bound to the simulated network (the simulator picks the listener for each connection), server on the OS threads / tokio runtimes runtime_builder creates (scheduling NOT owned by the simulator): only schedule-independent observations (a synchronous program's answers by value, at most connection-limit connections served, a lone connection served at every listener, oversized set refused, one TTL probe on the real clock), reported as uncontrolled_schedule_runs.",
   tech="deterministic simulation (configuration differential on the simulated transport) + start-up path on the simulated network with uncontrolled OS threads",
   note="Trusted base as for ring N. Part (c) is not deterministic simulation in the strict sense: real threads, real clock; it makes only observations that cannot raise a false alarm on a slow machine (long deadline for expected answers, short settle for expected silence). The memcrsd binary over loopback, core pinning and kernel SO_REUSEPORT balancing are out of reach."),
}

def cmd(pid, tier):
    return "/verif/bin/check %s %s" % (pid, tier)

checks = []
for pid in props:
    if pid not in CHECKS:
        continue
    c = CHECKS[pid]
    checks.append({
        "property_id": pid,
        "quick_cmd": cmd(pid, "quick"),
        "thorough_cmd": cmd(pid, "thorough"),
        "evidence_file": "/verif/evidence/%s.json" % pid,
        "replay_cmd_template": "/verif/bin/check replay {path}",
        "engine": "dst",
        "level_claimed": {"category": c["cat"], "text": c["text"], "design_ref": "DESIGN.md section " + c["ref"]},
        "level_note": c.get("note", MODEL_NOTE),
        "technique": c["tech"],
    })

hook_commits = subprocess.run(["git", "-C", "/repo", "log", "--format=%h %s"], capture_output=True, text=True).stdout.splitlines()
hooks = [l.split()[0] for l in hook_commits if "verif hook" in l]

m = {
 "version": 1,
 "setup_cmd": "/verif/bin/setup",
 "hooks": {
   "guard": "--cfg memcrs_verif",
   "enable": "rustflags = [\"--cfg\", \"memcrs_verif\"] in /verif/sim/.cargo/config.toml; /verif/sim/gen_shadow.py writes a shadow manifest whose [lib] path is /repo/memcrs/src/lib.rs, adding the simseam seam crate, tokio's test-util feature and a [patch] of dashmap with /verif/sim/vendor/dashmap-sim",
   "baseline_off_cmd": "cd /repo && cargo test --workspace --no-fail-fast --offline",
   "source_commits": hooks,
   "add_only": True,
 },
 "engines": [
   {"name": "dst", "path": "/verif/sim/dst", "serves_properties": sorted(CHECKS.keys()),
    "kind_free_text": "deterministic simulator: ring H (codec/handler/store under a simulated clock), ring N (whole server on a simulated TCP transport in a paused current_thread tokio runtime), ring T (store under a baton scheduler owning DashMap shard locks and atomics); shared seeded generator, reference model, framing model, minimiser, replay"},
 ],
 "checks": checks,
 "not_applicable": [{"property_id": p, "reason": "check under construction in this build round; not claimed yet"} for p in props if p not in CHECKS],
 "notes": "Exit codes: 0 held on everything explored (KNOWN-FINDING lines possible), 1 VIOLATION property=<id> replay=<path>, 2 harness/build error. VERIF_SEED selects the batch (fixed default); replay files are explicit traces and never re-draw from the PRNG. known_findings.json lists repaired (fixed) and open findings.",
}
json.dump(m, open("/verif/MANIFEST.json", "w"), indent=1)
print("manifest: %d checks, %d not claimed" % (len(checks), len(m["not_applicable"])))
