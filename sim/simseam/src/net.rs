//! Simulated TCP for ring N: `TcpListener` / `TcpStream` with the small API
//! surface memcrs uses, backed by in-memory queues the simulator drives.
//!
//! Model: a reliable ordered byte stream per direction, FIN (orderly close /
//! half close), RST (abortive: undelivered inbound data is discarded, reads
//! fail with ECONNRESET, writes with EPIPE), an outbound window for
//! back-pressure (short and pending writes), a cap on bytes returned per read,
//! an accept queue per listener with injectable accept errors.
use std::collections::{BTreeMap, VecDeque};
use std::future::poll_fn;
use std::io;
use std::net::{IpAddr, Ipv4Addr, SocketAddr, ToSocketAddrs};
use std::pin::Pin;
use std::sync::atomic::{AtomicU64, Ordering};
use std::sync::{Arc, Mutex, MutexGuard};
use std::task::{Context, Poll, Waker};
use std::time::Duration;
use tokio::io::{AsyncRead, AsyncWrite, ReadBuf};

#[derive(Debug)]
enum AcceptItem {
    Conn(usize),
    Error(i32),
}

#[derive(Default)]
struct ListenerSt {
    port: u16,
    backlog: u32,
    queue: VecDeque<AcceptItem>,
    waker: Option<Waker>,
    dropped: bool,
    accepts: u64,
}

#[derive(Default)]
struct ConnSt {
    inbound: VecDeque<u8>,
    in_eof: bool,
    reset: bool,
    out: Vec<u8>,
    out_total: u64,
    window: usize,
    read_cap: usize,
    write_cap: usize,
    srv_shutdown: bool,
    srv_dropped: bool,
    accepted: bool,
    listener: usize,
    read_waker: Option<Waker>,
    write_waker: Option<Waker>,
    write_blocked: bool,
    read_blocked: bool,
    reads: u64,
    writes: u64,
    short_writes: u64,
    pending_writes: u64,
    write_errors: u64,
    read_errors: u64,
}

#[derive(Default)]
struct NetInner {
    listeners: Vec<ListenerSt>,
    conns: Vec<ConnSt>,
}

/// One simulated network (one per run).
pub struct SimNet {
    inner: Mutex<NetInner>,
    activity: AtomicU64,
}

/// Snapshot of a connection for the harness.
#[derive(Clone, Debug, Default)]
pub struct ConnView {
    pub accepted: bool,
    pub srv_dropped: bool,
    pub srv_shutdown: bool,
    pub write_blocked: bool,
    pub read_blocked: bool,
    pub inbound_unread: usize,
    pub out_total: u64,
    pub reads: u64,
    pub writes: u64,
    pub short_writes: u64,
    pub pending_writes: u64,
    pub write_errors: u64,
    pub read_errors: u64,
    pub reset: bool,
}

thread_local! {
    static CURRENT: std::cell::RefCell<Option<Arc<SimNet>>> = const { std::cell::RefCell::new(None) };
}

static GLOBAL: Mutex<BTreeMap<u16, Arc<SimNet>>> = Mutex::new(BTreeMap::new());

impl SimNet {
    pub fn new() -> Arc<SimNet> {
        Arc::new(SimNet {
            inner: Mutex::new(NetInner::default()),
            activity: AtomicU64::new(0),
        })
    }

    /// Make this the network that `sim_bind` on the calling thread attaches to.
    pub fn install(net: &Arc<SimNet>) {
        CURRENT.with(|c| *c.borrow_mut() = Some(net.clone()));
    }

    pub fn uninstall() {
        CURRENT.with(|c| *c.borrow_mut() = None);
    }

    /// Make this the network for `sim_bind(port)` from any thread that has no
    /// thread-local network (used when the code under test creates its own
    /// threads: runtime_builder).
    pub fn register_global(port: u16, net: &Arc<SimNet>) {
        GLOBAL.lock().unwrap().insert(port, net.clone());
    }

    pub fn unregister_global(port: u16) {
        GLOBAL.lock().unwrap().remove(&port);
    }

    fn lock(&self) -> MutexGuard<'_, NetInner> {
        self.inner.lock().unwrap_or_else(|e| e.into_inner())
    }

    fn bump(&self) {
        self.activity.fetch_add(1, Ordering::SeqCst);
    }

    /// Monotone counter of server-side touches of any sim object.
    pub fn activity(&self) -> u64 {
        self.activity.load(Ordering::SeqCst)
    }

    pub fn listeners(&self) -> usize {
        self.lock().listeners.iter().filter(|l| !l.dropped).count()
    }

    pub fn listener_accepts(&self, l: usize) -> u64 {
        self.lock().listeners[l].accepts
    }

    /// Number of connections queued (not yet accepted) on listener `l`.
    pub fn listener_queue(&self, l: usize) -> usize {
        self.lock().listeners[l].queue.len()
    }

    /// A client connects to listener `l`. Returns the connection id, or None
    /// when the accept queue is full (the SYN would be retried later).
    pub fn connect(&self, l: usize) -> Option<usize> {
        let waker;
        let id;
        {
            let mut g = self.lock();
            if l >= g.listeners.len() || g.listeners[l].dropped {
                return None;
            }
            let backlog = g.listeners[l].backlog.max(1) as usize;
            if g.listeners[l].queue.len() >= backlog {
                return None;
            }
            id = g.conns.len();
            g.conns.push(ConnSt {
                window: usize::MAX,
                read_cap: usize::MAX,
                write_cap: usize::MAX,
                listener: l,
                ..Default::default()
            });
            g.listeners[l].queue.push_back(AcceptItem::Conn(id));
            waker = g.listeners[l].waker.take();
        }
        if let Some(w) = waker {
            w.wake();
        }
        Some(id)
    }

    /// The next `accept` on listener `l` fails with this errno.
    pub fn push_accept_error(&self, l: usize, errno: i32) {
        let waker;
        {
            let mut g = self.lock();
            g.listeners[l].queue.push_back(AcceptItem::Error(errno));
            waker = g.listeners[l].waker.take();
        }
        if let Some(w) = waker {
            w.wake();
        }
    }

    /// Make `bytes` readable by the server on connection `c`.
    pub fn deliver(&self, c: usize, bytes: &[u8]) {
        let waker;
        {
            let mut g = self.lock();
            let cs = &mut g.conns[c];
            if cs.reset || cs.in_eof {
                return;
            }
            cs.inbound.extend(bytes.iter().copied());
            waker = cs.read_waker.take();
        }
        if let Some(w) = waker {
            w.wake();
        }
    }

    /// Client sends FIN (orderly close of its sending direction).
    pub fn fin(&self, c: usize) {
        let waker;
        {
            let mut g = self.lock();
            let cs = &mut g.conns[c];
            cs.in_eof = true;
            waker = cs.read_waker.take();
        }
        if let Some(w) = waker {
            w.wake();
        }
    }

    /// Client resets the connection: unread inbound data is discarded.
    pub fn rst(&self, c: usize) {
        let (w1, w2);
        {
            let mut g = self.lock();
            let cs = &mut g.conns[c];
            cs.reset = true;
            cs.inbound.clear();
            w1 = cs.read_waker.take();
            w2 = cs.write_waker.take();
        }
        if let Some(w) = w1 {
            w.wake();
        }
        if let Some(w) = w2 {
            w.wake();
        }
    }

    /// Drain what the server has written so far.
    pub fn take_output(&self, c: usize) -> Vec<u8> {
        let mut g = self.lock();
        std::mem::take(&mut g.conns[c].out)
    }

    /// Set the free outbound window (bytes the server may still write before
    /// its writes return Pending). usize::MAX = unlimited.
    pub fn set_window(&self, c: usize, n: usize) {
        let waker;
        {
            let mut g = self.lock();
            let cs = &mut g.conns[c];
            cs.window = n;
            waker = if n > 0 { cs.write_waker.take() } else { None };
        }
        if let Some(w) = waker {
            w.wake();
        }
    }

    pub fn add_window(&self, c: usize, n: usize) {
        let waker;
        {
            let mut g = self.lock();
            let cs = &mut g.conns[c];
            cs.window = cs.window.saturating_add(n);
            waker = if n > 0 { cs.write_waker.take() } else { None };
        }
        if let Some(w) = waker {
            w.wake();
        }
    }

    pub fn set_read_cap(&self, c: usize, n: usize) {
        self.lock().conns[c].read_cap = n.max(1);
    }

    pub fn set_write_cap(&self, c: usize, n: usize) {
        self.lock().conns[c].write_cap = n.max(1);
    }

    pub fn view(&self, c: usize) -> ConnView {
        let g = self.lock();
        let cs = &g.conns[c];
        ConnView {
            accepted: cs.accepted,
            srv_dropped: cs.srv_dropped,
            srv_shutdown: cs.srv_shutdown,
            write_blocked: cs.write_blocked,
            read_blocked: cs.read_blocked,
            inbound_unread: cs.inbound.len(),
            out_total: cs.out_total,
            reads: cs.reads,
            writes: cs.writes,
            short_writes: cs.short_writes,
            pending_writes: cs.pending_writes,
            write_errors: cs.write_errors,
            read_errors: cs.read_errors,
            reset: cs.reset,
        }
    }

    pub fn conn_listener(&self, c: usize) -> usize {
        self.lock().conns[c].listener
    }

    pub fn conns(&self) -> usize {
        self.lock().conns.len()
    }
}

// ---------------------------------------------------------------------------

pub struct TcpListener {
    net: Arc<SimNet>,
    id: usize,
}

impl TcpListener {
    /// Hook H3: what `get_tcp_listener` returns under `cfg(memcrs_verif)`.
    pub fn sim_bind<A: ToSocketAddrs>(addr: A, backlog: u32) -> io::Result<TcpListener> {
        let port = addr
            .to_socket_addrs()?
            .next()
            .map(|a| a.port())
            .ok_or_else(|| io::Error::new(io::ErrorKind::InvalidInput, "no address"))?;
        let net = CURRENT
            .with(|c| c.borrow().clone())
            .or_else(|| GLOBAL.lock().unwrap().get(&port).cloned())
            .ok_or_else(|| {
                io::Error::new(io::ErrorKind::AddrNotAvailable, "no simulated network")
            })?;
        let id;
        {
            let mut g = net.lock();
            id = g.listeners.len();
            g.listeners.push(ListenerSt {
                port,
                backlog,
                ..Default::default()
            });
        }
        net.bump();
        Ok(TcpListener { net, id })
    }

    /// Present only so that the untouched tail of `get_tcp_listener`
    /// type-checks; never called under the simulator.
    pub fn from_std(_l: std::net::TcpListener) -> io::Result<TcpListener> {
        Err(io::Error::new(
            io::ErrorKind::Unsupported,
            "simseam: from_std is not available",
        ))
    }

    pub fn port(&self) -> u16 {
        self.net.lock().listeners[self.id].port
    }

    pub fn local_addr(&self) -> io::Result<SocketAddr> {
        Ok(SocketAddr::new(IpAddr::V4(Ipv4Addr::new(127, 0, 0, 1)), self.port()))
    }

    pub async fn accept(&self) -> io::Result<(TcpStream, SocketAddr)> {
        poll_fn(|cx| self.poll_accept(cx)).await
    }

    fn poll_accept(&self, cx: &mut Context<'_>) -> Poll<io::Result<(TcpStream, SocketAddr)>> {
        self.net.bump();
        let mut g = self.net.lock();
        match g.listeners[self.id].queue.pop_front() {
            Some(AcceptItem::Conn(c)) => {
                g.listeners[self.id].accepts += 1;
                g.conns[c].accepted = true;
                let addr = SocketAddr::new(
                    IpAddr::V4(Ipv4Addr::new(127, 0, 0, 1)),
                    (20000 + (c % 40000)) as u16,
                );
                drop(g);
                Poll::Ready(Ok((
                    TcpStream {
                        net: self.net.clone(),
                        id: c,
                    },
                    addr,
                )))
            }
            Some(AcceptItem::Error(errno)) => Poll::Ready(Err(io::Error::from_raw_os_error(errno))),
            None => {
                g.listeners[self.id].waker = Some(cx.waker().clone());
                Poll::Pending
            }
        }
    }
}

impl Drop for TcpListener {
    fn drop(&mut self) {
        self.net.lock().listeners[self.id].dropped = true;
        self.net.bump();
    }
}

pub struct TcpStream {
    net: Arc<SimNet>,
    id: usize,
}

impl TcpStream {
    pub fn set_nodelay(&self, _v: bool) -> io::Result<()> {
        Ok(())
    }
    pub fn set_linger(&self, _d: Option<Duration>) -> io::Result<()> {
        Ok(())
    }
    pub fn nodelay(&self) -> io::Result<bool> {
        Ok(true)
    }
    pub fn linger(&self) -> io::Result<Option<Duration>> {
        Ok(None)
    }
    pub fn set_ttl(&self, _ttl: u32) -> io::Result<()> {
        Ok(())
    }
    pub fn ttl(&self) -> io::Result<u32> {
        Ok(64)
    }
    pub fn local_addr(&self) -> io::Result<SocketAddr> {
        Ok(SocketAddr::new(IpAddr::V4(Ipv4Addr::new(127, 0, 0, 1)), 11211))
    }
    /// Resolves when the stream has something to read (data, EOF or an error).
    pub async fn readable(&self) -> io::Result<()> {
        poll_fn(|cx| {
            self.net.bump();
            let mut g = self.net.lock();
            let cs = &mut g.conns[self.id];
            if cs.reset || cs.in_eof || !cs.inbound.is_empty() {
                Poll::Ready(Ok(()))
            } else {
                cs.read_waker = Some(cx.waker().clone());
                Poll::Pending
            }
        })
        .await
    }
    /// Resolves when the stream can take at least one byte.
    pub async fn writable(&self) -> io::Result<()> {
        poll_fn(|cx| {
            self.net.bump();
            let mut g = self.net.lock();
            let cs = &mut g.conns[self.id];
            if cs.reset || cs.window > 0 {
                Poll::Ready(Ok(()))
            } else {
                cs.write_waker = Some(cx.waker().clone());
                Poll::Pending
            }
        })
        .await
    }
    pub fn peer_addr(&self) -> io::Result<SocketAddr> {
        Ok(SocketAddr::new(
            IpAddr::V4(Ipv4Addr::new(127, 0, 0, 1)),
            (20000 + (self.id % 40000)) as u16,
        ))
    }
}

impl AsyncRead for TcpStream {
    fn poll_read(
        self: Pin<&mut Self>,
        cx: &mut Context<'_>,
        buf: &mut ReadBuf<'_>,
    ) -> Poll<io::Result<()>> {
        self.net.bump();
        let mut g = self.net.lock();
        let cs = &mut g.conns[self.id];
        cs.reads += 1;
        if cs.reset {
            cs.read_errors += 1;
            return Poll::Ready(Err(io::Error::from_raw_os_error(104))); // ECONNRESET
        }
        if !cs.inbound.is_empty() {
            let n = buf.remaining().min(cs.inbound.len()).min(cs.read_cap);
            if n == 0 {
                return Poll::Ready(Ok(()));
            }
            let (a, b) = cs.inbound.as_slices();
            if a.len() >= n {
                buf.put_slice(&a[..n]);
            } else {
                buf.put_slice(a);
                buf.put_slice(&b[..n - a.len()]);
            }
            cs.inbound.drain(..n);
            cs.read_blocked = false;
            return Poll::Ready(Ok(()));
        }
        if cs.in_eof {
            return Poll::Ready(Ok(()));
        }
        cs.read_blocked = true;
        cs.read_waker = Some(cx.waker().clone());
        Poll::Pending
    }
}

impl AsyncWrite for TcpStream {
    fn poll_write(
        self: Pin<&mut Self>,
        cx: &mut Context<'_>,
        data: &[u8],
    ) -> Poll<io::Result<usize>> {
        self.net.bump();
        let mut g = self.net.lock();
        let cs = &mut g.conns[self.id];
        cs.writes += 1;
        if cs.reset {
            cs.write_errors += 1;
            return Poll::Ready(Err(io::Error::from_raw_os_error(32))); // EPIPE
        }
        if cs.srv_shutdown {
            cs.write_errors += 1;
            return Poll::Ready(Err(io::Error::from_raw_os_error(32)));
        }
        if data.is_empty() {
            return Poll::Ready(Ok(0));
        }
        if cs.window == 0 {
            cs.write_blocked = true;
            cs.pending_writes += 1;
            cs.write_waker = Some(cx.waker().clone());
            return Poll::Pending;
        }
        let n = data.len().min(cs.window).min(cs.write_cap);
        if n < data.len() {
            cs.short_writes += 1;
        }
        cs.out.extend_from_slice(&data[..n]);
        cs.out_total += n as u64;
        if cs.window != usize::MAX {
            cs.window -= n;
        }
        cs.write_blocked = false;
        Poll::Ready(Ok(n))
    }

    fn poll_flush(self: Pin<&mut Self>, _cx: &mut Context<'_>) -> Poll<io::Result<()>> {
        self.net.bump();
        Poll::Ready(Ok(()))
    }

    fn poll_shutdown(self: Pin<&mut Self>, _cx: &mut Context<'_>) -> Poll<io::Result<()>> {
        self.net.bump();
        let mut g = self.net.lock();
        let cs = &mut g.conns[self.id];
        if cs.reset {
            return Poll::Ready(Err(io::Error::from_raw_os_error(107))); // ENOTCONN
        }
        cs.srv_shutdown = true;
        Poll::Ready(Ok(()))
    }
}

impl Drop for TcpStream {
    fn drop(&mut self) {
        let mut g = self.net.lock();
        g.conns[self.id].srv_dropped = true;
        g.conns[self.id].read_waker = None;
        g.conns[self.id].write_waker = None;
        drop(g);
        self.net.bump();
    }
}
