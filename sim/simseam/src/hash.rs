//! Deterministic stand-in for `std::collections::hash_map::RandomState`.
#![allow(deprecated)]
use std::hash::{BuildHasher, SipHasher};

#[derive(Clone, Debug)]
pub struct RandomState {
    k0: u64,
    k1: u64,
}

impl RandomState {
    pub fn new() -> Self {
        let s = crate::knobs::hash_seed();
        RandomState {
            k0: s,
            k1: s.rotate_left(29) ^ 0x9e37_79b9_7f4a_7c15,
        }
    }
}

impl Default for RandomState {
    fn default() -> Self {
        RandomState::new()
    }
}

impl BuildHasher for RandomState {
    type Hasher = SipHasher;
    fn build_hasher(&self) -> SipHasher {
        SipHasher::new_with_keys(self.k0, self.k1)
    }
}
