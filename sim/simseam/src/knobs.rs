use std::cell::Cell;

thread_local! {
    static SHARDS: Cell<usize> = const { Cell::new(0) };
    static HASH_SEED: Cell<u64> = const { Cell::new(0x5eed_0000_d00d_f00d) };
}

/// Shard count for DashMaps created on this thread (0 = DashMap's own default).
pub fn set_shard_amount(n: usize) {
    assert!(n == 0 || (n > 1 && n.is_power_of_two()));
    SHARDS.with(|c| c.set(n));
}

pub fn shard_amount() -> Option<usize> {
    let n = SHARDS.with(|c| c.get());
    if n == 0 {
        None
    } else {
        Some(n)
    }
}

/// Hasher keys for DashMaps created on this thread.
pub fn set_hash_seed(seed: u64) {
    HASH_SEED.with(|c| c.set(seed));
}

pub fn hash_seed() -> u64 {
    HASH_SEED.with(|c| c.get())
}
