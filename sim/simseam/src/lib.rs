//! simseam: the seams the simulator owns.
//!
//! * `knobs`, `hash`, `rng` – per-run deterministic replacements for DashMap's
//!   random hasher / CPU-count dependent shard count and for `SmallRng::from_entropy`.
//! * `sched`  – ring-T baton scheduler (one client thread runs at a time; who runs
//!   next is decided from the seed or from a replay list; owns every DashMap shard lock).
//! * `atomic` – AtomicU64 with a scheduling point before every access.
//! * `net`    – simulated TcpListener/TcpStream for ring N.
pub mod atomic;
pub mod hash;
pub mod knobs;
pub mod net;
pub mod rng;
pub mod sched;
