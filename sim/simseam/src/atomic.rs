//! AtomicU64 with a scheduling point before every access when a ring-T
//! scheduler is active on the calling thread; plain std atomic otherwise.
pub use std::sync::atomic::Ordering;

#[derive(Debug, Default)]
pub struct AtomicU64 {
    inner: std::sync::atomic::AtomicU64,
}

impl AtomicU64 {
    pub const fn new(v: u64) -> Self {
        AtomicU64 {
            inner: std::sync::atomic::AtomicU64::new(v),
        }
    }
    #[inline]
    fn point(&self) {
        crate::sched::atomic_point(self as *const _ as usize);
    }
    pub fn load(&self, o: Ordering) -> u64 {
        self.point();
        self.inner.load(o)
    }
    pub fn store(&self, v: u64, o: Ordering) {
        self.point();
        self.inner.store(v, o)
    }
    pub fn swap(&self, v: u64, o: Ordering) -> u64 {
        self.point();
        self.inner.swap(v, o)
    }
    pub fn fetch_add(&self, v: u64, o: Ordering) -> u64 {
        self.point();
        self.inner.fetch_add(v, o)
    }
    pub fn fetch_sub(&self, v: u64, o: Ordering) -> u64 {
        self.point();
        self.inner.fetch_sub(v, o)
    }
    pub fn fetch_max(&self, v: u64, o: Ordering) -> u64 {
        self.point();
        self.inner.fetch_max(v, o)
    }
    pub fn fetch_min(&self, v: u64, o: Ordering) -> u64 {
        self.point();
        self.inner.fetch_min(v, o)
    }
    pub fn fetch_update<F>(&self, set: Ordering, fetch: Ordering, f: F) -> Result<u64, u64>
    where
        F: FnMut(u64) -> Option<u64>,
    {
        self.point();
        self.inner.fetch_update(set, fetch, f)
    }
    pub fn compare_exchange(
        &self,
        cur: u64,
        new: u64,
        s: Ordering,
        f: Ordering,
    ) -> Result<u64, u64> {
        self.point();
        self.inner.compare_exchange(cur, new, s, f)
    }
    pub fn compare_exchange_weak(
        &self,
        cur: u64,
        new: u64,
        s: Ordering,
        f: Ordering,
    ) -> Result<u64, u64> {
        self.point();
        // never fails spuriously under the simulator (keeps runs replayable)
        self.inner.compare_exchange(cur, new, s, f)
    }
    pub fn into_inner(self) -> u64 {
        self.inner.into_inner()
    }
    pub fn get_mut(&mut self) -> &mut u64 {
        self.inner.get_mut()
    }
    /// Harness-side read without a scheduling point.
    pub fn peek(&self) -> u64 {
        self.inner.load(Ordering::SeqCst)
    }
}
