//! AtomicU64 with a scheduling point before every access when a ring-T
//! scheduler is active on the calling thread; plain std atomic otherwise.
pub use std::sync::atomic::Ordering;

#[derive(Debug, Default)]
pub struct AtomicU64 {
    inner: std::sync::atomic::AtomicU64,
}

impl AtomicU64 {
    pub const fn new(v: u64) -> Self {
        AtomicU64 {
            inner: std::sync::atomic::AtomicU64::new(v),
        }
    }
    #[inline]
    fn point(&self) {
        crate::sched::atomic_point(self as *const _ as usize);
    }
    pub fn load(&self, o: Ordering) -> u64 {
        self.point();
        self.inner.load(o)
    }
    pub fn store(&self, v: u64, o: Ordering) {
        self.point();
        self.inner.store(v, o)
    }
    pub fn swap(&self, v: u64, o: Ordering) -> u64 {
        self.point();
        self.inner.swap(v, o)
    }
    pub fn fetch_add(&self, v: u64, o: Ordering) -> u64 {
        self.point();
        self.inner.fetch_add(v, o)
    }
    pub fn fetch_sub(&self, v: u64, o: Ordering) -> u64 {
        self.point();
        self.inner.fetch_sub(v, o)
    }
    pub fn fetch_and(&self, v: u64, o: Ordering) -> u64 {
        self.point();
        self.inner.fetch_and(v, o)
    }
    pub fn fetch_or(&self, v: u64, o: Ordering) -> u64 {
        self.point();
        self.inner.fetch_or(v, o)
    }
    pub fn fetch_xor(&self, v: u64, o: Ordering) -> u64 {
        self.point();
        self.inner.fetch_xor(v, o)
    }
    pub fn fetch_nand(&self, v: u64, o: Ordering) -> u64 {
        self.point();
        self.inner.fetch_nand(v, o)
    }
    pub fn fetch_max(&self, v: u64, o: Ordering) -> u64 {
        self.point();
        self.inner.fetch_max(v, o)
    }
    pub fn fetch_min(&self, v: u64, o: Ordering) -> u64 {
        self.point();
        self.inner.fetch_min(v, o)
    }
    pub fn fetch_update<F>(&self, set: Ordering, fetch: Ordering, f: F) -> Result<u64, u64>
    where
        F: FnMut(u64) -> Option<u64>,
    {
        self.point();
        self.inner.fetch_update(set, fetch, f)
    }
    pub fn compare_exchange(
        &self,
        cur: u64,
        new: u64,
        s: Ordering,
        f: Ordering,
    ) -> Result<u64, u64> {
        self.point();
        self.inner.compare_exchange(cur, new, s, f)
    }
    pub fn compare_exchange_weak(
        &self,
        cur: u64,
        new: u64,
        s: Ordering,
        f: Ordering,
    ) -> Result<u64, u64> {
        self.point();
        // never fails spuriously under the simulator (keeps runs replayable)
        self.inner.compare_exchange(cur, new, s, f)
    }
    pub fn into_inner(self) -> u64 {
        self.inner.into_inner()
    }
    pub fn get_mut(&mut self) -> &mut u64 {
        self.inner.get_mut()
    }
    /// Harness-side read without a scheduling point.
    pub fn peek(&self) -> u64 {
        self.inner.load(Ordering::SeqCst)
    }
}

impl From<u64> for AtomicU64 {
    fn from(v: u64) -> Self {
        AtomicU64::new(v)
    }
}

pub use std::sync::atomic::{compiler_fence, fence};

/// The other integer / bool atomics, with the same scheduling point before every
/// access, so that a change in /repo that switches the counter type still builds
/// and is still scheduled.
macro_rules! shim_atomic {
    ($name:ident, $t:ty) => {
        #[derive(Debug, Default)]
        pub struct $name {
            inner: std::sync::atomic::$name,
        }
        impl $name {
            pub const fn new(v: $t) -> Self {
                $name { inner: std::sync::atomic::$name::new(v) }
            }
            #[inline]
            fn point(&self) {
                crate::sched::atomic_point(self as *const _ as usize);
            }
            pub fn load(&self, o: Ordering) -> $t {
                self.point();
                self.inner.load(o)
            }
            pub fn store(&self, v: $t, o: Ordering) {
                self.point();
                self.inner.store(v, o)
            }
            pub fn swap(&self, v: $t, o: Ordering) -> $t {
                self.point();
                self.inner.swap(v, o)
            }
            pub fn compare_exchange(&self, c: $t, n: $t, s: Ordering, f: Ordering) -> Result<$t, $t> {
                self.point();
                self.inner.compare_exchange(c, n, s, f)
            }
            pub fn compare_exchange_weak(&self, c: $t, n: $t, s: Ordering, f: Ordering) -> Result<$t, $t> {
                self.point();
                self.inner.compare_exchange(c, n, s, f)
            }
            pub fn fetch_update<F: FnMut($t) -> Option<$t>>(&self, s: Ordering, f: Ordering, g: F) -> Result<$t, $t> {
                self.point();
                self.inner.fetch_update(s, f, g)
            }
            pub fn into_inner(self) -> $t {
                self.inner.into_inner()
            }
            pub fn peek(&self) -> $t {
                self.inner.load(Ordering::SeqCst)
            }
        }
    };
}

macro_rules! shim_atomic_int {
    ($name:ident, $t:ty) => {
        shim_atomic!($name, $t);
        impl $name {
            pub fn fetch_add(&self, v: $t, o: Ordering) -> $t {
                self.point();
                self.inner.fetch_add(v, o)
            }
            pub fn fetch_sub(&self, v: $t, o: Ordering) -> $t {
                self.point();
                self.inner.fetch_sub(v, o)
            }
            pub fn fetch_max(&self, v: $t, o: Ordering) -> $t {
                self.point();
                self.inner.fetch_max(v, o)
            }
            pub fn fetch_min(&self, v: $t, o: Ordering) -> $t {
                self.point();
                self.inner.fetch_min(v, o)
            }
            pub fn fetch_and(&self, v: $t, o: Ordering) -> $t {
                self.point();
                self.inner.fetch_and(v, o)
            }
            pub fn fetch_or(&self, v: $t, o: Ordering) -> $t {
                self.point();
                self.inner.fetch_or(v, o)
            }
        }
    };
}

shim_atomic_int!(AtomicUsize, usize);
shim_atomic_int!(AtomicU32, u32);
shim_atomic_int!(AtomicI64, i64);
shim_atomic_int!(AtomicIsize, isize);
shim_atomic_int!(AtomicI32, i32);
shim_atomic!(AtomicBool, bool);

impl AtomicBool {
    pub fn fetch_and(&self, v: bool, o: Ordering) -> bool {
        self.point();
        self.inner.fetch_and(v, o)
    }
    pub fn fetch_or(&self, v: bool, o: Ordering) -> bool {
        self.point();
        self.inner.fetch_or(v, o)
    }
}
