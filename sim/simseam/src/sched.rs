//! Ring-T scheduler: real OS threads, parked except for the one holding the
//! baton. Every scheduling decision (who runs next) is taken here, from a
//! seeded chooser or from an explicit replay list. The scheduler also keeps the
//! holder table of every DashMap shard lock, so a thread whose next step is a
//! lock acquire is only ever granted when the lock is available, and "no
//! thread can be granted although some are unfinished" is an exact deadlock.
use std::cell::RefCell;
use std::collections::BTreeMap;
use std::sync::{Arc, Condvar, Mutex, MutexGuard};
use std::time::Duration;

#[derive(Clone, Copy, Debug, PartialEq, Eq, PartialOrd, Ord, Hash)]
pub enum PointKind {
    Start,
    LockR,
    LockW,
    TryLockR,
    TryLockW,
    Atomic,
    Clock,
    Invoke,
    Return,
}

impl PointKind {
    pub fn code(self) -> u8 {
        match self {
            PointKind::Start => b'S',
            PointKind::LockR => b'r',
            PointKind::LockW => b'w',
            PointKind::TryLockR => b't',
            PointKind::TryLockW => b'T',
            PointKind::Atomic => b'a',
            PointKind::Clock => b'c',
            PointKind::Invoke => b'i',
            PointKind::Return => b'o',
        }
    }
}

#[derive(Clone, Debug)]
pub struct SchedEvent {
    pub step: u32,
    pub tid: u8,
    pub kind: PointKind,
    /// lock / atomic id (numbered in order of first use) or operation index
    pub obj: u32,
    /// true when another thread than the previously running one was chosen
    /// although the previous one was still enabled
    pub preempt: bool,
}

/// Marker payload used to unwind client threads out of an aborted run.
pub struct SchedAbort;

#[derive(Clone, Debug, PartialEq, Eq)]
pub enum Abort {
    Deadlock(String),
    Budget,
}

pub enum Chooser {
    /// uniform choice among enabled threads
    Random { state: u64 },
    /// PCT-style: strict priorities, `change_points` steps at which the running
    /// thread drops to the lowest priority
    Pct {
        state: u64,
        prio: Vec<i64>,
        change_points: Vec<u32>,
        next_low: i64,
    },
    /// explicit list of thread ids; an entry that is not enabled (or a list
    /// that ran out) falls back to "stay on the previous thread if enabled,
    /// else the lowest enabled id" so shrunk lists still define a schedule
    Replay { list: Vec<u8>, pos: usize },
}

fn splitmix(state: &mut u64) -> u64 {
    *state = state.wrapping_add(0x9e37_79b9_7f4a_7c15);
    let mut z = *state;
    z = (z ^ (z >> 30)).wrapping_mul(0xbf58_476d_1ce4_e5b9);
    z = (z ^ (z >> 27)).wrapping_mul(0x94d0_49bb_1331_11eb);
    z ^ (z >> 31)
}

impl Chooser {
    pub fn random(seed: u64) -> Chooser {
        Chooser::Random { state: seed }
    }
    pub fn pct(seed: u64, threads: usize, depth: usize, expected_steps: u32) -> Chooser {
        let mut state = seed;
        let mut prio: Vec<i64> = (0..threads as i64).map(|i| 1000 + i).collect();
        // Fisher-Yates
        for i in (1..threads).rev() {
            let j = (splitmix(&mut state) % (i as u64 + 1)) as usize;
            prio.swap(i, j);
        }
        let mut change_points = Vec::new();
        for _ in 0..depth {
            change_points.push(1 + (splitmix(&mut state) % expected_steps.max(1) as u64) as u32);
        }
        change_points.sort();
        Chooser::Pct {
            state,
            prio,
            change_points,
            next_low: 999,
        }
    }
    pub fn replay(list: Vec<u8>) -> Chooser {
        Chooser::Replay { list, pos: 0 }
    }
}

#[derive(Clone, Copy, Debug, PartialEq, Eq)]
enum TSt {
    NotStarted,
    Waiting { kind: PointKind, addr: usize, obj: u32 },
    Running,
    Finished,
}

#[derive(Default, Debug)]
struct LockSt {
    writer: Option<usize>,
    readers: Vec<usize>,
}

struct Inner {
    n: usize,
    current: usize,
    st: Vec<TSt>,
    locks: BTreeMap<usize, LockSt>,
    ids: BTreeMap<usize, u32>,
    chooser: Chooser,
    trace: Vec<u8>,
    events: Vec<SchedEvent>,
    steps: u32,
    budget: u32,
    abort: Option<Abort>,
    done: bool,
    registered: usize,
    last: usize,
    preemptions: u32,
    switches: u32,
    /// granted threads that have not come back for a long time: presumably
    /// blocked in a primitive the scheduler does not own (a std Mutex, a channel)
    /// whose holder is parked at a scheduling point
    foreign: Vec<bool>,
    foreign_events: u32,
    /// bumped at every scheduling point and thread exit
    progress: u64,
}

const NONE: usize = usize::MAX;

pub struct Sched {
    inner: Mutex<Inner>,
    cvs: Vec<Condvar>,
    harness_cv: Condvar,
}

/// What the harness gets back after a run.
#[derive(Debug, Clone)]
pub struct RunReport {
    pub trace: Vec<u8>,
    pub events: Vec<SchedEvent>,
    pub steps: u32,
    pub abort: Option<Abort>,
    pub timed_out: bool,
    pub preemptions: u32,
    pub switches: u32,
    pub objects: u32,
    /// how often a granted thread had to be considered blocked in a foreign
    /// primitive and another thread was let run beside it (the run is then
    /// no longer a pure function of the schedule)
    pub foreign_blocks: u32,
}

thread_local! {
    static CUR: RefCell<Option<(Arc<Sched>, usize)>> = const { RefCell::new(None) };
}

fn unwind() -> ! {
    std::panic::resume_unwind(Box::new(SchedAbort))
}

impl Inner {
    fn id_of(&mut self, addr: usize) -> u32 {
        let next = self.ids.len() as u32;
        *self.ids.entry(addr).or_insert(next)
    }

    fn enabled(&self, t: usize) -> bool {
        match self.st[t] {
            TSt::Waiting { kind, addr, .. } => match kind {
                PointKind::LockW => match self.locks.get(&addr) {
                    None => true,
                    Some(l) => l.writer.is_none() && l.readers.is_empty(),
                },
                PointKind::LockR => match self.locks.get(&addr) {
                    None => true,
                    Some(l) => l.writer.is_none(),
                },
                _ => true,
            },
            _ => false,
        }
    }

    /// a granted thread that is (as far as known) really executing
    fn someone_runs(&self) -> bool {
        (0..self.n).any(|t| self.st[t] == TSt::Running && !self.foreign[t])
    }

    fn describe_deadlock(&self) -> String {
        let mut s = String::new();
        for t in 0..self.n {
            match self.st[t] {
                TSt::Waiting { kind, addr, obj } => {
                    let holder = match self.locks.get(&addr) {
                        Some(l) => format!("writer={:?} readers={:?}", l.writer, l.readers),
                        None => "free".to_string(),
                    };
                    s.push_str(&format!(
                        "T{} waits {:?} lock#{} ({}); ",
                        t, kind, obj, holder
                    ));
                }
                TSt::Finished => s.push_str(&format!("T{} finished; ", t)),
                other => s.push_str(&format!("T{} {:?}; ", t, other)),
            }
        }
        s
    }
}

impl Sched {
    pub fn new(n: usize, chooser: Chooser, budget: u32) -> Arc<Sched> {
        Arc::new(Sched {
            inner: Mutex::new(Inner {
                n,
                current: NONE,
                st: vec![TSt::NotStarted; n],
                locks: BTreeMap::new(),
                ids: BTreeMap::new(),
                chooser,
                trace: Vec::new(),
                events: Vec::new(),
                steps: 0,
                budget,
                abort: None,
                done: false,
                registered: 0,
                last: NONE,
                preemptions: 0,
                switches: 0,
                foreign: vec![false; n],
                foreign_events: 0,
                progress: 0,
            }),
            cvs: (0..n).map(|_| Condvar::new()).collect(),
            harness_cv: Condvar::new(),
        })
    }

    fn lock(&self) -> MutexGuard<'_, Inner> {
        self.inner.lock().unwrap_or_else(|e| e.into_inner())
    }

    fn abort_all(&self, g: &mut Inner, why: Abort) {
        g.abort = Some(why);
        for cv in &self.cvs {
            cv.notify_all();
        }
        self.harness_cv.notify_all();
    }

    /// Decide who runs next. Called with the mutex held by the thread that is
    /// giving up the baton (or by the harness for the first decision).
    fn pick(&self, g: &mut Inner) {
        if g.abort.is_some() {
            return;
        }
        let enabled: Vec<usize> = (0..g.n).filter(|&t| g.enabled(t)).collect();
        if enabled.is_empty() {
            if g.st.iter().all(|s| *s == TSt::Finished) {
                g.done = true;
                g.current = NONE;
                self.harness_cv.notify_all();
            } else if g.st.iter().any(|s| *s == TSt::Running) {
                // somebody granted earlier (and believed to be blocked in a foreign
                // primitive) is still out there: it will call in when it gets on
            } else {
                let d = g.describe_deadlock();
                self.abort_all(g, Abort::Deadlock(d));
            }
            return;
        }
        g.steps += 1;
        if g.steps > g.budget {
            self.abort_all(g, Abort::Budget);
            return;
        }
        let last = g.last;
        let last_enabled = last != NONE && enabled.contains(&last);
        let step = g.steps;
        let t = match &mut g.chooser {
            Chooser::Random { state } => {
                enabled[(splitmix(state) % enabled.len() as u64) as usize]
            }
            Chooser::Pct {
                prio,
                change_points,
                next_low,
                ..
            } => {
                while let Some(&cp) = change_points.first() {
                    if cp <= step {
                        change_points.remove(0);
                        if last != NONE {
                            prio[last] = *next_low;
                            *next_low -= 1;
                        }
                    } else {
                        break;
                    }
                }
                *enabled.iter().max_by_key(|&&t| prio[t]).unwrap()
            }
            Chooser::Replay { list, pos } => {
                let want = list.get(*pos).copied();
                *pos += 1;
                match want {
                    Some(w) if enabled.contains(&(w as usize)) => w as usize,
                    _ => {
                        if last_enabled {
                            last
                        } else {
                            enabled[0]
                        }
                    }
                }
            }
        };
        let preempt = last_enabled && t != last;
        if preempt {
            g.preemptions += 1;
        }
        if last != NONE && t != last {
            g.switches += 1;
        }
        // grant: apply the lock acquisition to the holder table now, so the
        // table is consistent before anybody else is considered
        let (kind, obj) = match g.st[t] {
            TSt::Waiting { kind, addr, obj } => {
                match kind {
                    PointKind::LockW => {
                        g.locks.entry(addr).or_default().writer = Some(t);
                    }
                    PointKind::LockR => {
                        g.locks.entry(addr).or_default().readers.push(t);
                    }
                    _ => {}
                }
                (kind, obj)
            }
            _ => unreachable!(),
        };
        g.st[t] = TSt::Running;
        g.current = t;
        g.last = t;
        g.trace.push(t as u8);
        g.events.push(SchedEvent {
            step,
            tid: t as u8,
            kind,
            obj,
            preempt,
        });
        self.cvs[t].notify_all();
    }

    fn wait_turn<'a>(&'a self, mut g: MutexGuard<'a, Inner>, me: usize) {
        loop {
            if g.abort.is_some() {
                drop(g);
                unwind();
            }
            if g.st[me] == TSt::Running {
                return;
            }
            g = self.cvs[me].wait(g).unwrap_or_else(|e| e.into_inner());
        }
    }

    fn point_from(&self, me: usize, kind: PointKind, addr: usize, obj_is_addr: bool) {
        let mut g = self.lock();
        if g.abort.is_some() {
            if std::thread::panicking() {
                return;
            }
            drop(g);
            unwind();
        }
        let obj = if obj_is_addr {
            g.id_of(addr)
        } else {
            addr as u32
        };
        g.st[me] = TSt::Waiting { kind, addr, obj };
        g.foreign[me] = false;
        g.progress += 1;
        // exactly one thread holds the baton - except beside a thread that is blocked in
        // a foreign primitive; whoever comes in while another one really runs just queues
        if !g.someone_runs() {
            self.pick(&mut g);
        }
        self.wait_turn(g, me);
    }

    // ---------------- harness side ----------------

    /// Block until all `n` client threads have called `enter`.
    pub fn wait_registered(&self) {
        let mut g = self.lock();
        while g.registered < g.n {
            g = self.harness_cv.wait(g).unwrap_or_else(|e| e.into_inner());
        }
    }

    /// Take the first scheduling decision.
    pub fn kick(&self) {
        let mut g = self.lock();
        self.pick(&mut g);
    }

    /// Wait until every thread finished or the run was aborted. `step_timeout`
    /// is a wall-clock watchdog for the whole (tiny) run.
    pub fn wait_done(&self, step_timeout: Duration) -> RunReport {
        let mut g = self.lock();
        let mut timed_out = false;
        let mut seen = g.progress;
        let mut since = std::time::Instant::now();
        let foreign_after = Duration::from_millis(400);
        while !g.done && g.abort.is_none() {
            let (ng, _res) = self
                .harness_cv
                .wait_timeout(g, Duration::from_millis(50))
                .unwrap_or_else(|e| e.into_inner());
            g = ng;
            if g.done || g.abort.is_some() {
                break;
            }
            if g.progress != seen {
                seen = g.progress;
                since = std::time::Instant::now();
                continue;
            }
            let idle = since.elapsed();
            if idle >= step_timeout {
                // nobody reached a scheduling point for the whole budget
                timed_out = true;
                break;
            }
            if idle >= foreign_after && g.someone_runs() && (0..g.n).any(|t| g.enabled(t)) {
                // the granted thread does not come back although others could run: it is
                // taken to be blocked in a primitive the scheduler does not own, held by a
                // thread that is parked here. Let another thread run beside it.
                for t in 0..g.n {
                    if g.st[t] == TSt::Running {
                        g.foreign[t] = true;
                    }
                }
                g.foreign_events += 1;
                self.pick(&mut g);
                since = std::time::Instant::now();
            }
        }
        RunReport {
            trace: g.trace.clone(),
            events: g.events.clone(),
            steps: g.steps,
            abort: g.abort.clone(),
            timed_out,
            preemptions: g.preemptions,
            switches: g.switches,
            objects: g.ids.len() as u32,
            foreign_blocks: g.foreign_events,
        }
    }
}

// ---------------- client-thread side ----------------

/// Register the calling OS thread as simulated thread `tid` and wait for the
/// first grant.
pub fn enter(s: &Arc<Sched>, tid: usize) {
    CUR.with(|c| *c.borrow_mut() = Some((s.clone(), tid)));
    let mut g = s.lock();
    g.st[tid] = TSt::Waiting {
        kind: PointKind::Start,
        addr: 0,
        obj: 0,
    };
    g.registered += 1;
    s.harness_cv.notify_all();
    s.wait_turn(g, tid);
}

/// The calling thread is done (also called when it unwinds).
pub fn exit() {
    let cur = CUR.with(|c| c.borrow_mut().take());
    if let Some((s, me)) = cur {
        let mut g = s.lock();
        // a thread that dies holding locks releases them (its guards were
        // dropped while unwinding and already told us; this is a safety net)
        for l in g.locks.values_mut() {
            if l.writer == Some(me) {
                l.writer = None;
            }
            l.readers.retain(|&r| r != me);
        }
        g.st[me] = TSt::Finished;
        g.foreign[me] = false;
        g.progress += 1;
        if g.abort.is_none() {
            if !g.someone_runs() {
                s.pick(&mut g);
            }
        } else if g.st.iter().all(|x| *x == TSt::Finished) {
            s.harness_cv.notify_all();
        }
    }
}

#[inline]
pub fn active() -> bool {
    CUR.with(|c| c.borrow().is_some())
}

fn with_cur<R>(f: impl FnOnce(&Arc<Sched>, usize) -> R) -> Option<R> {
    let cur = CUR.with(|c| c.borrow().as_ref().map(|(s, t)| (s.clone(), *t)));
    cur.map(|(s, t)| f(&s, t))
}

/// Blocking acquire of a shard lock: returns once the scheduler has granted it.
pub fn acquire(addr: usize, exclusive: bool) {
    let kind = if exclusive {
        PointKind::LockW
    } else {
        PointKind::LockR
    };
    with_cur(|s, me| s.point_from(me, kind, addr, true));
}

/// Scheduling point, then a non-blocking attempt against the holder table.
pub fn try_acquire(addr: usize, exclusive: bool) -> bool {
    let kind = if exclusive {
        PointKind::TryLockW
    } else {
        PointKind::TryLockR
    };
    with_cur(|s, me| {
        s.point_from(me, kind, addr, true);
        let mut g = s.lock();
        let l = g.locks.entry(addr).or_default();
        if exclusive {
            if l.writer.is_none() && l.readers.is_empty() {
                l.writer = Some(me);
                true
            } else {
                false
            }
        } else if l.writer.is_none() {
            l.readers.push(me);
            true
        } else {
            false
        }
    })
    .unwrap_or(false)
}

pub fn release(addr: usize, exclusive: bool) {
    with_cur(|s, me| {
        let mut g = s.lock();
        if let Some(l) = g.locks.get_mut(&addr) {
            if exclusive {
                if l.writer == Some(me) {
                    l.writer = None;
                }
            } else if let Some(p) = l.readers.iter().position(|&r| r == me) {
                l.readers.remove(p);
            }
        }
    });
}

pub fn downgrade(addr: usize) {
    with_cur(|s, me| {
        let mut g = s.lock();
        let l = g.locks.entry(addr).or_default();
        if l.writer == Some(me) {
            l.writer = None;
            l.readers.push(me);
        }
    });
}

/// Scheduling point before an access to a shared atomic.
#[inline]
pub fn atomic_point(addr: usize) {
    if active() {
        with_cur(|s, me| s.point_from(me, PointKind::Atomic, addr, true));
    }
}

/// Scheduling point before a read of the simulated clock.
#[inline]
pub fn clock_point() {
    if active() {
        with_cur(|s, me| s.point_from(me, PointKind::Clock, 0, false));
    }
}

/// Scheduling point at operation invoke / return; returns the global step
/// number at which the calling thread was granted (the history stamp).
pub fn op_point(invoke: bool, op_index: u32) -> u32 {
    let kind = if invoke {
        PointKind::Invoke
    } else {
        PointKind::Return
    };
    with_cur(|s, me| {
        s.point_from(me, kind, op_index as usize, false);
        s.lock().steps
    })
    .unwrap_or(0)
}
