//! Seed source for the victim-choosing SmallRng in RandomPolicy (hook H4).
use std::cell::Cell;

thread_local! {
    static STATE: Cell<u64> = const { Cell::new(0x1234_5678_9abc_def1) };
}

/// Set the per-run seed (harness; in ring T every client thread gets a seed
/// derived from the run seed and its thread id).
pub fn seed(s: u64) {
    STATE.with(|c| c.set(s));
}

/// Next 64-bit value (splitmix64).
pub fn next() -> u64 {
    STATE.with(|c| {
        let mut z = c.get().wrapping_add(0x9e37_79b9_7f4a_7c15);
        c.set(z);
        z = (z ^ (z >> 30)).wrapping_mul(0xbf58_476d_1ce4_e5b9);
        z = (z ^ (z >> 27)).wrapping_mul(0x94d0_49bb_1331_11eb);
        z ^ (z >> 31)
    })
}
