//! Ring-N transformers: turn one-piece deliveries into simulator-chosen TCP
//! segmentations, and keep scenarios meaningful across idle-timeout closes.
#![allow(dead_code)]
use crate::model::Model;
use crate::rng::Rng;
use crate::scenario::{Ev, Scenario, SymReq};

pub fn wire_len(r: &SymReq) -> usize {
    let m = Model::new(u32::MAX, crate::model::LossMode::Strict);
    r.materialise(&m).encode().len()
}

#[derive(Clone, Copy, Debug, PartialEq, Eq)]
pub enum SegStyle {
    OneShot,
    ByteAtATime,
    RandomCuts,
    HeaderThenRest,
    HeaderPlusK,
    Mixed,
}

/// Split `total` pending bytes into delivery sizes.
pub fn cut_sizes(rng: &mut Rng, total: usize, style: SegStyle) -> Vec<usize> {
    if total == 0 {
        return vec![];
    }
    match style {
        SegStyle::OneShot => vec![total],
        SegStyle::ByteAtATime => vec![1; total],
        SegStyle::HeaderThenRest => {
            if total > 24 {
                vec![24, total - 24]
            } else {
                vec![total]
            }
        }
        SegStyle::HeaderPlusK => {
            if total > 25 {
                let k = rng.range(1, (total - 24 - 1).max(1) as u64) as usize;
                let mut v = vec![24 + k];
                if total > 24 + k {
                    v.push(total - 24 - k);
                }
                v
            } else {
                vec![total]
            }
        }
        SegStyle::RandomCuts | SegStyle::Mixed => {
            let ncuts = rng.range(1, 4) as usize;
            let mut cuts: Vec<usize> = (0..ncuts).map(|_| rng.range(1, total as u64) as usize).filter(|&c| c < total).collect();
            cuts.sort();
            cuts.dedup();
            let mut v = Vec::new();
            let mut prev = 0;
            for c in cuts {
                v.push(c - prev);
                prev = c;
            }
            v.push(total - prev);
            v
        }
    }
}

/// Rewrite a ring-H style scenario (Send..., Deliver all) for ring N:
/// random segmentation of every delivery, optional sub-second delays between
/// segments, and re-connection after an idle timeout has certainly fired.
pub fn to_ring_n(sc: &Scenario, rng: &mut Rng, style: SegStyle, delay_pct: u32) -> Scenario {
    let timeout_ms = sc.knobs.timeout_secs as u64 * 1000;
    let mut out = Scenario {
        knobs: sc.knobs.clone(),
        events: Vec::new(),
    };
    // scenario conn -> current live ring-N conn
    let mut map: Vec<usize> = Vec::new();
    let mut idle: Vec<u64> = Vec::new();
    let mut pending: Vec<usize> = Vec::new();
    let mut next_conn = 0usize;
    // drawn up front so that the closure below needs no PRNG access
    let mut caps: Vec<(u32, u32, u32)> = Vec::new();
    for _ in 0..8 {
        let w = if rng.chance(1, 4) { *rng.pick(&[1u32, 3, 7, 16, 24, 25, 64]) } else { 0 };
        let r = if rng.chance(1, 6) { *rng.pick(&[1u32, 2, 5, 23, 24, 25, 64]) } else { 0 };
        // a slow reader: the peer's window opens only now and then
        let win = if rng.chance(1, 8) { *rng.pick(&[1u32, 10, 24, 30, 100, 1000]) } else { 0 };
        caps.push((w, r, win));
    }
    let stalled: std::cell::RefCell<Vec<usize>> = std::cell::RefCell::new(Vec::new());
    let remap = |c: usize, map: &mut Vec<usize>, idle: &mut Vec<u64>, pending: &mut Vec<usize>, next_conn: &mut usize, out: &mut Scenario| {
        while map.len() <= c {
            map.push(usize::MAX);
            idle.push(0);
            pending.push(0);
        }
        if map[c] == usize::MAX {
            map[c] = *next_conn;
            *next_conn += 1;
            idle[c] = 0;
            out.events.push(Ev::Connect { c: map[c] });
            // per-connection transport knobs: how much one read / one write moves
            // (short writes and tiny reads whatever the delivery segmentation is)
            let r = caps.get(map[c] % caps.len().max(1)).copied().unwrap_or((0, 0, 0));
            if r.0 > 0 {
                out.events.push(Ev::WriteCap { c: map[c], n: r.0 });
            }
            if r.1 > 0 {
                out.events.push(Ev::ReadCap { c: map[c], n: r.1 });
            }
            if r.2 > 0 {
                stalled.borrow_mut().push(map[c]);
            }
        }
    };
    // A slow reader makes its connection's answers arrive late while the request
    // was executed early; so that the order in which the model sees operations of
    // different connections stays the execution order, a stalled connection
    // catches up before any other connection (or the clock) acts.
    let mut limited: Vec<usize> = Vec::new();
    let flush_others = |keep: Option<usize>, limited: &mut Vec<usize>, out: &mut Scenario| {
        let mut rest = Vec::new();
        for c in limited.drain(..) {
            if Some(c) == keep {
                rest.push(c);
            } else {
                out.events.push(Ev::Window { c, n: u64::MAX });
            }
        }
        *limited = rest;
    };
    for ev in &sc.events {
        match ev {
            Ev::Connect { c } => {
                remap(*c, &mut map, &mut idle, &mut pending, &mut next_conn, &mut out);
            }
            Ev::Send { c, req } => {
                remap(*c, &mut map, &mut idle, &mut pending, &mut next_conn, &mut out);
                flush_others(Some(map[*c]), &mut limited, &mut out);
                pending[*c] += wire_len(req);
                out.events.push(Ev::Send { c: map[*c], req: req.clone() });
            }
            Ev::Raw { c, bytes } => {
                remap(*c, &mut map, &mut idle, &mut pending, &mut next_conn, &mut out);
                pending[*c] += bytes.len();
                out.events.push(Ev::Raw { c: map[*c], bytes: bytes.clone() });
            }
            Ev::Deliver { c, n } => {
                remap(*c, &mut map, &mut idle, &mut pending, &mut next_conn, &mut out);
                flush_others(Some(map[*c]), &mut limited, &mut out);
                if stalled.borrow().contains(&map[*c]) && !limited.contains(&map[*c]) {
                    let w = caps.get(map[*c] % caps.len().max(1)).map(|x| x.2).unwrap_or(0);
                    if w > 0 {
                        out.events.push(Ev::Window { c: map[*c], n: w as u64 });
                        limited.push(map[*c]);
                    }
                }
                let total = (*n as usize).min(pending[*c]);
                let st = if style == SegStyle::Mixed {
                    *rng.pick(&[SegStyle::OneShot, SegStyle::OneShot, SegStyle::RandomCuts, SegStyle::HeaderThenRest, SegStyle::HeaderPlusK, SegStyle::ByteAtATime])
                } else {
                    style
                };
                let st = if st == SegStyle::ByteAtATime && total > 120 { SegStyle::RandomCuts } else { st };
                let sizes = cut_sizes(rng, total, st);
                let k = sizes.len();
                for (i, sz) in sizes.into_iter().enumerate() {
                    out.events.push(Ev::Deliver { c: map[*c], n: sz as u32 });
                    if i + 1 < k && !limited.contains(&map[*c]) && rng.chance(delay_pct as u64, 100) {
                        // a delay between two segments of one delivery; short enough
                        // never to trip the idle timeout on its own
                        let ms = *rng.pick(&[1u64, 10, 250, 999, 1000]);
                        let ms = ms.min(timeout_ms.saturating_sub(1) / 4);
                        if ms > 0 {
                            out.events.push(Ev::Advance { ms });
                            for x in idle.iter_mut() {
                                *x += ms;
                            }
                        }
                    }
                }
                pending[*c] -= total;
                idle[*c] = 0;
                if stalled.borrow().contains(&map[*c]) {
                    let n = *rng.pick(&[0u64, 1, 24, 25, 60, 500]);
                    if n > 0 {
                        out.events.push(Ev::Drain { c: map[*c], n });
                    }
                }
            }
            Ev::Advance { ms } => {
                flush_others(None, &mut limited, &mut out);
                out.events.push(Ev::Advance { ms: *ms });
                for (c, x) in idle.iter_mut().enumerate() {
                    *x += ms;
                    if *x >= timeout_ms && map[c] != usize::MAX {
                        // the server has dropped it; use a fresh connection next time
                        map[c] = usize::MAX;
                        pending[c] = 0;
                    }
                }
            }
            other => {
                flush_others(None, &mut limited, &mut out);
                let mut e = other.clone();
                match &mut e {
                    Ev::Fin { c } | Ev::Rst { c } | Ev::Window { c, .. } | Ev::Drain { c, .. } | Ev::ReadCap { c, .. } | Ev::WriteCap { c, .. } => {
                        let cc = *c;
                        remap(cc, &mut map, &mut idle, &mut pending, &mut next_conn, &mut out);
                        *c = map[cc];
                    }
                    _ => {}
                }
                out.events.push(e);
            }
        }
    }
    // at the end every slow reader catches up, so that every answer can be seen
    for c in limited.iter() {
        out.events.push(Ev::Window { c: *c, n: u64::MAX });
    }
    out
}
