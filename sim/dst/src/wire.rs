//! Independent implementation of the memcached binary protocol's wire format,
//! written from the protocol description; never calls into /repo.
#![allow(dead_code)]

pub mod op {
    pub const GET: u8 = 0x00;
    pub const SET: u8 = 0x01;
    pub const ADD: u8 = 0x02;
    pub const REPLACE: u8 = 0x03;
    pub const DELETE: u8 = 0x04;
    pub const INCR: u8 = 0x05;
    pub const DECR: u8 = 0x06;
    pub const QUIT: u8 = 0x07;
    pub const FLUSH: u8 = 0x08;
    pub const GETQ: u8 = 0x09;
    pub const NOOP: u8 = 0x0a;
    pub const VERSION: u8 = 0x0b;
    pub const GETK: u8 = 0x0c;
    pub const GETKQ: u8 = 0x0d;
    pub const APPEND: u8 = 0x0e;
    pub const PREPEND: u8 = 0x0f;
    pub const STAT: u8 = 0x10;
    pub const SETQ: u8 = 0x11;
    pub const ADDQ: u8 = 0x12;
    pub const REPLACEQ: u8 = 0x13;
    pub const DELETEQ: u8 = 0x14;
    pub const INCRQ: u8 = 0x15;
    pub const DECRQ: u8 = 0x16;
    pub const QUITQ: u8 = 0x17;
    pub const FLUSHQ: u8 = 0x18;
    pub const APPENDQ: u8 = 0x19;
    pub const PREPENDQ: u8 = 0x1a;
    pub const TOUCH: u8 = 0x1c;
    pub const GAT: u8 = 0x1d;
    pub const GATQ: u8 = 0x1e;
    pub const SASL_LIST: u8 = 0x20;
    pub const SASL_AUTH: u8 = 0x21;
    pub const SASL_STEP: u8 = 0x22;
    pub const GATK: u8 = 0x23;
    pub const GATKQ: u8 = 0x24;
    /// first opcode value that is not in the protocol table used by memcrs
    pub const MAX: u8 = 0x25;
}

pub mod status {
    pub const OK: u16 = 0x0000;
    pub const NOT_FOUND: u16 = 0x0001;
    pub const EXISTS: u16 = 0x0002;
    pub const TOO_LARGE: u16 = 0x0003;
    pub const INVALID_ARGS: u16 = 0x0004;
    pub const NOT_STORED: u16 = 0x0005;
    pub const NON_NUMERIC: u16 = 0x0006;
    pub const AUTH_ERROR: u16 = 0x0020;
    pub const AUTH_CONTINUE: u16 = 0x0021;
    pub const UNKNOWN_COMMAND: u16 = 0x0081;
    pub const OUT_OF_MEMORY: u16 = 0x0082;
    pub const NOT_SUPPORTED: u16 = 0x0083;
    pub const INTERNAL_ERROR: u16 = 0x0084;
    pub const BUSY: u16 = 0x0085;
    pub const TEMP_FAILURE: u16 = 0x0086;

    /// the protocol's status table
    pub fn known(s: u16) -> bool {
        matches!(
            s,
            0x0000..=0x0006 | 0x0007..=0x0009 | 0x0020 | 0x0021 | 0x0081..=0x0086
        )
    }
}

#[derive(Clone, Copy, Debug, PartialEq, Eq, PartialOrd, Ord, Hash)]
pub enum Kind {
    Get,
    Set,
    Add,
    Replace,
    Delete,
    Incr,
    Decr,
    Quit,
    Flush,
    Noop,
    Version,
    Append,
    Prepend,
    Stat,
    /// in the protocol table but not implemented by memcrs (touch, GAT*, SASL*)
    Unimplemented,
    /// 0x1b and everything >= 0x25
    Unknown,
}

#[derive(Clone, Copy, Debug, PartialEq, Eq)]
pub struct OpInfo {
    pub kind: Kind,
    pub quiet: bool,
    /// getk / getkq
    pub with_key: bool,
}

pub fn op_info(opcode: u8) -> OpInfo {
    use op::*;
    let (kind, quiet, with_key) = match opcode {
        GET => (Kind::Get, false, false),
        GETQ => (Kind::Get, true, false),
        GETK => (Kind::Get, false, true),
        GETKQ => (Kind::Get, true, true),
        SET => (Kind::Set, false, false),
        SETQ => (Kind::Set, true, false),
        ADD => (Kind::Add, false, false),
        ADDQ => (Kind::Add, true, false),
        REPLACE => (Kind::Replace, false, false),
        REPLACEQ => (Kind::Replace, true, false),
        DELETE => (Kind::Delete, false, false),
        DELETEQ => (Kind::Delete, true, false),
        INCR => (Kind::Incr, false, false),
        INCRQ => (Kind::Incr, true, false),
        DECR => (Kind::Decr, false, false),
        DECRQ => (Kind::Decr, true, false),
        QUIT => (Kind::Quit, false, false),
        QUITQ => (Kind::Quit, true, false),
        FLUSH => (Kind::Flush, false, false),
        FLUSHQ => (Kind::Flush, true, false),
        NOOP => (Kind::Noop, false, false),
        VERSION => (Kind::Version, false, false),
        APPEND => (Kind::Append, false, false),
        APPENDQ => (Kind::Append, true, false),
        PREPEND => (Kind::Prepend, false, false),
        PREPENDQ => (Kind::Prepend, true, false),
        STAT => (Kind::Stat, false, false),
        TOUCH | GAT | GATQ | SASL_LIST | SASL_AUTH | SASL_STEP | GATK | GATKQ => {
            (Kind::Unimplemented, false, false)
        }
        _ => (Kind::Unknown, false, false),
    };
    OpInfo {
        kind,
        quiet,
        with_key,
    }
}

pub fn opcode_for(kind: Kind, quiet: bool, with_key: bool) -> u8 {
    use op::*;
    match (kind, quiet) {
        (Kind::Get, false) => {
            if with_key {
                GETK
            } else {
                GET
            }
        }
        (Kind::Get, true) => {
            if with_key {
                GETKQ
            } else {
                GETQ
            }
        }
        (Kind::Set, false) => SET,
        (Kind::Set, true) => SETQ,
        (Kind::Add, false) => ADD,
        (Kind::Add, true) => ADDQ,
        (Kind::Replace, false) => REPLACE,
        (Kind::Replace, true) => REPLACEQ,
        (Kind::Delete, false) => DELETE,
        (Kind::Delete, true) => DELETEQ,
        (Kind::Incr, false) => INCR,
        (Kind::Incr, true) => INCRQ,
        (Kind::Decr, false) => DECR,
        (Kind::Decr, true) => DECRQ,
        (Kind::Quit, false) => QUIT,
        (Kind::Quit, true) => QUITQ,
        (Kind::Flush, false) => FLUSH,
        (Kind::Flush, true) => FLUSHQ,
        (Kind::Append, false) => APPEND,
        (Kind::Append, true) => APPENDQ,
        (Kind::Prepend, false) => PREPEND,
        (Kind::Prepend, true) => PREPENDQ,
        (Kind::Noop, _) => NOOP,
        (Kind::Version, _) => VERSION,
        (Kind::Stat, _) => STAT,
        (Kind::Unimplemented, _) => TOUCH,
        (Kind::Unknown, _) => 0x1b,
    }
}

/// A request as the harness builds it. The three length fields of the header
/// are derived from the parts unless overridden (to build malformed frames).
#[derive(Clone, Debug, PartialEq, Eq)]
pub struct Request {
    pub magic: u8,
    pub opcode: u8,
    pub data_type: u8,
    pub vbucket: u16,
    pub opaque: u32,
    pub cas: u64,
    pub extras: Vec<u8>,
    pub key: Vec<u8>,
    pub value: Vec<u8>,
    pub key_len_override: Option<u16>,
    pub extras_len_override: Option<u8>,
    pub body_len_override: Option<u32>,
}

impl Request {
    pub fn new(opcode: u8) -> Request {
        Request {
            magic: 0x80,
            opcode,
            data_type: 0,
            vbucket: 0,
            opaque: 0,
            cas: 0,
            extras: Vec::new(),
            key: Vec::new(),
            value: Vec::new(),
            key_len_override: None,
            extras_len_override: None,
            body_len_override: None,
        }
    }
    pub fn key_len(&self) -> u16 {
        self.key_len_override.unwrap_or(self.key.len() as u16)
    }
    pub fn extras_len(&self) -> u8 {
        self.extras_len_override.unwrap_or(self.extras.len() as u8)
    }
    pub fn body_len(&self) -> u32 {
        self.body_len_override
            .unwrap_or((self.extras.len() + self.key.len() + self.value.len()) as u32)
    }
    /// bytes actually put on the wire after the header
    pub fn body_bytes(&self) -> usize {
        self.extras.len() + self.key.len() + self.value.len()
    }
    pub fn encode(&self) -> Vec<u8> {
        let mut v = Vec::with_capacity(24 + self.body_bytes());
        v.push(self.magic);
        v.push(self.opcode);
        v.extend_from_slice(&self.key_len().to_be_bytes());
        v.push(self.extras_len());
        v.push(self.data_type);
        v.extend_from_slice(&self.vbucket.to_be_bytes());
        v.extend_from_slice(&self.body_len().to_be_bytes());
        v.extend_from_slice(&self.opaque.to_be_bytes());
        v.extend_from_slice(&self.cas.to_be_bytes());
        v.extend_from_slice(&self.extras);
        v.extend_from_slice(&self.key);
        v.extend_from_slice(&self.value);
        v
    }

    // ---- constructors for well-formed requests ----
    pub fn get(opcode: u8, key: &[u8]) -> Request {
        let mut r = Request::new(opcode);
        r.key = key.to_vec();
        r
    }
    pub fn store(opcode: u8, key: &[u8], value: &[u8], flags: u32, ttl: u32, cas: u64) -> Request {
        let mut r = Request::new(opcode);
        r.key = key.to_vec();
        r.value = value.to_vec();
        r.extras.extend_from_slice(&flags.to_be_bytes());
        r.extras.extend_from_slice(&ttl.to_be_bytes());
        r.cas = cas;
        r
    }
    pub fn concat(opcode: u8, key: &[u8], value: &[u8], cas: u64) -> Request {
        let mut r = Request::new(opcode);
        r.key = key.to_vec();
        r.value = value.to_vec();
        r.cas = cas;
        r
    }
    pub fn delete(opcode: u8, key: &[u8], cas: u64) -> Request {
        let mut r = Request::new(opcode);
        r.key = key.to_vec();
        r.cas = cas;
        r
    }
    pub fn counter(opcode: u8, key: &[u8], delta: u64, initial: u64, exp: u32, cas: u64) -> Request {
        let mut r = Request::new(opcode);
        r.key = key.to_vec();
        r.extras.extend_from_slice(&delta.to_be_bytes());
        r.extras.extend_from_slice(&initial.to_be_bytes());
        r.extras.extend_from_slice(&exp.to_be_bytes());
        r.cas = cas;
        r
    }
    pub fn flush(opcode: u8, delay: Option<u32>) -> Request {
        let mut r = Request::new(opcode);
        if let Some(d) = delay {
            r.extras.extend_from_slice(&d.to_be_bytes());
        }
        r
    }
    pub fn bare(opcode: u8) -> Request {
        Request::new(opcode)
    }
}

/// A response frame as parsed off the wire (no interpretation yet).
#[derive(Clone, Debug, PartialEq, Eq)]
pub struct Response {
    pub magic: u8,
    pub opcode: u8,
    pub key_len: u16,
    pub extras_len: u8,
    pub data_type: u8,
    pub status: u16,
    pub body_len: u32,
    pub opaque: u32,
    pub cas: u64,
    /// the `body_len` bytes following the header
    pub body: Vec<u8>,
}

impl Response {
    pub fn extras(&self) -> &[u8] {
        let e = (self.extras_len as usize).min(self.body.len());
        &self.body[..e]
    }
    pub fn key(&self) -> &[u8] {
        let e = (self.extras_len as usize).min(self.body.len());
        let k = (e + self.key_len as usize).min(self.body.len());
        &self.body[e..k]
    }
    pub fn value(&self) -> &[u8] {
        let e = (self.extras_len as usize).min(self.body.len());
        let k = (e + self.key_len as usize).min(self.body.len());
        &self.body[k..]
    }
    pub fn flags(&self) -> Option<u32> {
        let e = self.extras();
        if e.len() == 4 {
            Some(u32::from_be_bytes([e[0], e[1], e[2], e[3]]))
        } else {
            None
        }
    }
    pub fn counter(&self) -> Option<u64> {
        let v = self.value();
        if v.len() == 8 {
            let mut a = [0u8; 8];
            a.copy_from_slice(v);
            Some(u64::from_be_bytes(a))
        } else {
            None
        }
    }
    pub fn short(&self) -> String {
        format!(
            "resp{{op={:#04x} st={:#06x} opaque={:#x} cas={} kl={} el={} bl={} body={}}}",
            self.opcode,
            self.status,
            self.opaque,
            self.cas,
            self.key_len,
            self.extras_len,
            self.body_len,
            hex_short(&self.body, 24)
        )
    }
}

/// Try to take one response frame from the front of `buf`.
/// Ok(None): need more bytes. Err: the header is not a response header.
pub fn parse_response(buf: &[u8]) -> Result<Option<(Response, usize)>, String> {
    if buf.len() < 24 {
        return Ok(None);
    }
    let magic = buf[0];
    if magic != 0x81 {
        return Err(format!("response magic {:#04x} != 0x81", magic));
    }
    let body_len = u32::from_be_bytes([buf[8], buf[9], buf[10], buf[11]]);
    let total = 24usize + body_len as usize;
    if buf.len() < total {
        return Ok(None);
    }
    let mut cas = [0u8; 8];
    cas.copy_from_slice(&buf[16..24]);
    Ok(Some((
        Response {
            magic,
            opcode: buf[1],
            key_len: u16::from_be_bytes([buf[2], buf[3]]),
            extras_len: buf[4],
            data_type: buf[5],
            status: u16::from_be_bytes([buf[6], buf[7]]),
            body_len,
            opaque: u32::from_be_bytes([buf[12], buf[13], buf[14], buf[15]]),
            cas: u64::from_be_bytes(cas),
            body: buf[24..total].to_vec(),
        },
        total,
    )))
}

/// Frame-local well-formedness (C11), independent of which request it answers.
pub fn frame_wellformed(r: &Response) -> Result<(), String> {
    if r.magic != 0x81 {
        return Err(format!("magic {:#x}", r.magic));
    }
    if r.data_type != 0 {
        return Err(format!("data type {}", r.data_type));
    }
    if !status::known(r.status) {
        return Err(format!("status {:#06x} not in the protocol table", r.status));
    }
    if (r.extras_len as u32) + (r.key_len as u32) > r.body_len {
        return Err(format!(
            "extras {} + key {} exceed body length {}",
            r.extras_len, r.key_len, r.body_len
        ));
    }
    if r.body.len() != r.body_len as usize {
        return Err("body shorter than body length".into());
    }
    Ok(())
}

pub fn hex(b: &[u8]) -> String {
    let mut s = String::with_capacity(b.len() * 2);
    for x in b {
        s.push_str(&format!("{:02x}", x));
    }
    s
}

pub fn hex_short(b: &[u8], max: usize) -> String {
    if b.len() <= max {
        hex(b)
    } else {
        format!("{}..(+{}B)", hex(&b[..max]), b.len() - max)
    }
}

pub fn unhex(s: &str) -> Option<Vec<u8>> {
    if s.len() % 2 != 0 {
        return None;
    }
    let b = s.as_bytes();
    let mut v = Vec::with_capacity(s.len() / 2);
    for i in (0..b.len()).step_by(2) {
        let h = (b[i] as char).to_digit(16)?;
        let l = (b[i + 1] as char).to_digit(16)?;
        v.push((h * 16 + l) as u8);
    }
    Some(v)
}
