//! Explicit, replayable description of one simulated run of rings H / N:
//! knobs + a list of events. Replay never re-draws from the PRNG.
#![allow(dead_code)]
use crate::model::Model;
use crate::wire::{self, op, op_info, Kind, Request};
use serde_json::{json, Value};

#[derive(Clone, Debug, PartialEq, Eq)]
pub enum CasSel {
    Zero,
    /// the CAS the model last observed for the key (0 if none)
    Current,
    /// the n-th most recently issued CAS before the current one (falls back to current+7)
    Stale(u8),
    /// current + n
    CurrentPlus(u8),
    Literal(u64),
}

#[derive(Clone, Debug, PartialEq, Eq)]
pub enum Val {
    Bytes(Vec<u8>),
    Fill { byte: u8, len: u32 },
    /// pseudo-random bytes from a tiny LCG (keeps replay files small)
    Pattern { seed: u32, len: u32 },
}

impl Val {
    pub fn bytes(&self) -> Vec<u8> {
        match self {
            Val::Bytes(b) => b.clone(),
            Val::Fill { byte, len } => vec![*byte; *len as usize],
            Val::Pattern { seed, len } => {
                let mut x = *seed as u64 | 1;
                (0..*len)
                    .map(|_| {
                        x = x.wrapping_mul(6364136223846793005).wrapping_add(1442695040888963407);
                        (x >> 33) as u8
                    })
                    .collect()
            }
        }
    }
    pub fn len(&self) -> usize {
        match self {
            Val::Bytes(b) => b.len(),
            Val::Fill { len, .. } | Val::Pattern { len, .. } => *len as usize,
        }
    }
    fn to_json(&self) -> Value {
        match self {
            Val::Bytes(b) => json!({"hex": wire::hex(b)}),
            Val::Fill { byte, len } => json!({"fill": byte, "len": len}),
            Val::Pattern { seed, len } => json!({"pattern": seed, "len": len}),
        }
    }
    fn from_json(v: &Value) -> Option<Val> {
        if let Some(h) = v.get("hex") {
            return Some(Val::Bytes(wire::unhex(h.as_str()?)?));
        }
        if let Some(b) = v.get("fill") {
            return Some(Val::Fill {
                byte: b.as_u64()? as u8,
                len: v.get("len")?.as_u64()? as u32,
            });
        }
        if let Some(s) = v.get("pattern") {
            return Some(Val::Pattern {
                seed: s.as_u64()? as u32,
                len: v.get("len")?.as_u64()? as u32,
            });
        }
        None
    }
}

/// A request with symbolic CAS; everything else explicit.
#[derive(Clone, Debug, PartialEq, Eq)]
pub struct SymReq {
    pub opcode: u8,
    pub key: Vec<u8>,
    pub val: Val,
    pub flags: u32,
    /// ttl of stores, expiration of counters
    pub ttl: u32,
    pub delta: u64,
    pub initial: u64,
    pub flush_delay: Option<u32>,
    pub cas: CasSel,
    pub opaque: u32,
    // ---- malformations ----
    pub magic: u8,
    pub data_type: u8,
    pub vbucket: u16,
    /// replaces the opcode's natural extras block
    pub raw_extras: Option<Vec<u8>>,
    pub key_len_override: Option<u16>,
    pub extras_len_override: Option<u8>,
    pub body_len_override: Option<u32>,
}

impl SymReq {
    pub fn new(opcode: u8, key: &[u8]) -> SymReq {
        SymReq {
            opcode,
            key: key.to_vec(),
            val: Val::Bytes(Vec::new()),
            flags: 0,
            ttl: 0,
            delta: 0,
            initial: 0,
            flush_delay: None,
            cas: CasSel::Zero,
            opaque: 0,
            magic: 0x80,
            data_type: 0,
            vbucket: 0,
            raw_extras: None,
            key_len_override: None,
            extras_len_override: None,
            body_len_override: None,
        }
    }
    pub fn get(opcode: u8, key: &[u8]) -> SymReq {
        SymReq::new(opcode, key)
    }
    pub fn store(opcode: u8, key: &[u8], val: Val, flags: u32, ttl: u32, cas: CasSel) -> SymReq {
        let mut r = SymReq::new(opcode, key);
        r.val = val;
        r.flags = flags;
        r.ttl = ttl;
        r.cas = cas;
        r
    }
    pub fn concat(opcode: u8, key: &[u8], val: Val, cas: CasSel) -> SymReq {
        let mut r = SymReq::new(opcode, key);
        r.val = val;
        r.cas = cas;
        r
    }
    pub fn counter(opcode: u8, key: &[u8], delta: u64, initial: u64, exp: u32, cas: CasSel) -> SymReq {
        let mut r = SymReq::new(opcode, key);
        r.delta = delta;
        r.initial = initial;
        r.ttl = exp;
        r.cas = cas;
        r
    }
    pub fn delete(opcode: u8, key: &[u8], cas: CasSel) -> SymReq {
        let mut r = SymReq::new(opcode, key);
        r.cas = cas;
        r
    }
    pub fn flush(opcode: u8, delay: Option<u32>) -> SymReq {
        let mut r = SymReq::new(opcode, b"");
        r.flush_delay = delay;
        r
    }
    pub fn bare(opcode: u8) -> SymReq {
        SymReq::new(opcode, b"")
    }

    pub fn resolve_cas(&self, model: &Model) -> u64 {
        match &self.cas {
            CasSel::Zero => 0,
            CasSel::Literal(v) => *v,
            CasSel::Current => model.current_cas(&self.key).unwrap_or(0),
            CasSel::CurrentPlus(n) => model
                .current_cas(&self.key)
                .map(|c| c.wrapping_add(*n as u64))
                .unwrap_or(*n as u64),
            CasSel::Stale(n) => {
                let cur = model.current_cas(&self.key);
                let hist = model.issued.get(&self.key);
                let mut cands: Vec<u64> = hist
                    .map(|h| h.iter().rev().copied().filter(|c| Some(*c) != cur).collect())
                    .unwrap_or_default();
                cands.dedup();
                if cands.is_empty() {
                    cur.unwrap_or(0).wrapping_add(7).max(1)
                } else {
                    cands[(*n as usize) % cands.len()]
                }
            }
        }
    }

    /// Turn into literal wire fields using the model's current knowledge.
    pub fn materialise(&self, model: &Model) -> Request {
        let info = op_info(self.opcode);
        let mut r = Request::new(self.opcode);
        r.magic = self.magic;
        r.data_type = self.data_type;
        r.vbucket = self.vbucket;
        r.opaque = self.opaque;
        r.cas = self.resolve_cas(model);
        r.key = self.key.clone();
        match info.kind {
            Kind::Set | Kind::Add | Kind::Replace => {
                r.extras.extend_from_slice(&self.flags.to_be_bytes());
                r.extras.extend_from_slice(&self.ttl.to_be_bytes());
                r.value = self.val.bytes();
            }
            Kind::Append | Kind::Prepend => {
                r.value = self.val.bytes();
            }
            Kind::Incr | Kind::Decr => {
                r.extras.extend_from_slice(&self.delta.to_be_bytes());
                r.extras.extend_from_slice(&self.initial.to_be_bytes());
                r.extras.extend_from_slice(&self.ttl.to_be_bytes());
            }
            Kind::Flush => {
                if let Some(d) = self.flush_delay {
                    r.extras.extend_from_slice(&d.to_be_bytes());
                }
            }
            _ => {
                // unusual shapes may still carry a value
                r.value = self.val.bytes();
            }
        }
        if let Some(e) = &self.raw_extras {
            r.extras = e.clone();
        }
        r.key_len_override = self.key_len_override;
        r.extras_len_override = self.extras_len_override;
        r.body_len_override = self.body_len_override;
        r
    }

    pub fn to_json(&self) -> Value {
        let mut m = serde_json::Map::new();
        m.insert("op".into(), json!(self.opcode));
        m.insert("key".into(), json!(wire::hex(&self.key)));
        if self.val.len() > 0 {
            m.insert("val".into(), self.val.to_json());
        }
        if self.flags != 0 {
            m.insert("flags".into(), json!(self.flags));
        }
        if self.ttl != 0 {
            m.insert("ttl".into(), json!(self.ttl));
        }
        if self.delta != 0 {
            m.insert("delta".into(), json!(self.delta));
        }
        if self.initial != 0 {
            m.insert("initial".into(), json!(self.initial));
        }
        if let Some(d) = self.flush_delay {
            m.insert("flush_delay".into(), json!(d));
        }
        match &self.cas {
            CasSel::Zero => {}
            CasSel::Current => {
                m.insert("cas".into(), json!("current"));
            }
            CasSel::Stale(n) => {
                m.insert("cas".into(), json!({"stale": n}));
            }
            CasSel::CurrentPlus(n) => {
                m.insert("cas".into(), json!({"current_plus": n}));
            }
            CasSel::Literal(v) => {
                m.insert("cas".into(), json!({"literal": v}));
            }
        }
        m.insert("opaque".into(), json!(self.opaque));
        if self.magic != 0x80 {
            m.insert("magic".into(), json!(self.magic));
        }
        if self.data_type != 0 {
            m.insert("data_type".into(), json!(self.data_type));
        }
        if self.vbucket != 0 {
            m.insert("vbucket".into(), json!(self.vbucket));
        }
        if let Some(e) = &self.raw_extras {
            m.insert("raw_extras".into(), json!(wire::hex(e)));
        }
        if let Some(v) = self.key_len_override {
            m.insert("key_len".into(), json!(v));
        }
        if let Some(v) = self.extras_len_override {
            m.insert("extras_len".into(), json!(v));
        }
        if let Some(v) = self.body_len_override {
            m.insert("body_len".into(), json!(v));
        }
        Value::Object(m)
    }

    pub fn from_json(v: &Value) -> Option<SymReq> {
        let mut r = SymReq::new(v.get("op")?.as_u64()? as u8, &wire::unhex(v.get("key")?.as_str()?)?);
        if let Some(x) = v.get("val") {
            r.val = Val::from_json(x)?;
        }
        let u = |name: &str| v.get(name).and_then(|x| x.as_u64());
        r.flags = u("flags").unwrap_or(0) as u32;
        r.ttl = u("ttl").unwrap_or(0) as u32;
        r.delta = u("delta").unwrap_or(0);
        r.initial = u("initial").unwrap_or(0);
        r.flush_delay = u("flush_delay").map(|x| x as u32);
        r.cas = match v.get("cas") {
            None => CasSel::Zero,
            Some(Value::String(s)) if s == "current" => CasSel::Current,
            Some(o) => {
                if let Some(n) = o.get("stale") {
                    CasSel::Stale(n.as_u64()? as u8)
                } else if let Some(n) = o.get("current_plus") {
                    CasSel::CurrentPlus(n.as_u64()? as u8)
                } else if let Some(n) = o.get("literal") {
                    CasSel::Literal(n.as_u64()?)
                } else {
                    return None;
                }
            }
        };
        r.opaque = u("opaque").unwrap_or(0) as u32;
        r.magic = u("magic").unwrap_or(0x80) as u8;
        r.data_type = u("data_type").unwrap_or(0) as u8;
        r.vbucket = u("vbucket").unwrap_or(0) as u16;
        r.raw_extras = match v.get("raw_extras") {
            Some(x) => Some(wire::unhex(x.as_str()?)?),
            None => None,
        };
        r.key_len_override = u("key_len").map(|x| x as u16);
        r.extras_len_override = u("extras_len").map(|x| x as u8);
        r.body_len_override = u("body_len").map(|x| x as u32);
        Some(r)
    }

    pub fn short(&self) -> String {
        let info = op_info(self.opcode);
        format!(
            "{:?}{}{}(key={} val={}B flags={:#x} ttl={} cas={:?})",
            info.kind,
            if info.quiet { "Q" } else { "" },
            if info.with_key { "K" } else { "" },
            wire::hex_short(&self.key, 8),
            self.val.len(),
            self.flags,
            self.ttl,
            self.cas
        )
    }
}

#[derive(Clone, Debug, PartialEq, Eq)]
pub enum Ev {
    Connect { c: usize },
    /// append a request to connection c's script (nothing is delivered yet)
    Send { c: usize, req: SymReq },
    /// append raw bytes to the script
    Raw { c: usize, bytes: Vec<u8> },
    /// make the next n bytes of the script readable (u32::MAX = everything pending)
    Deliver { c: usize, n: u32 },
    Advance { ms: u64 },
    Fin { c: usize },
    Rst { c: usize },
    /// set the free outbound window of c (usize::MAX as u64 = unlimited)
    Window { c: usize, n: u64 },
    /// the client reads n more bytes (adds to the window)
    Drain { c: usize, n: u64 },
    ReadCap { c: usize, n: u32 },
    WriteCap { c: usize, n: u32 },
    AcceptErr { errno: i32 },
}

impl Ev {
    pub fn to_json(&self) -> Value {
        match self {
            Ev::Connect { c } => json!({"ev":"connect","c":c}),
            Ev::Send { c, req } => json!({"ev":"send","c":c,"req":req.to_json()}),
            Ev::Raw { c, bytes } => json!({"ev":"raw","c":c,"hex":wire::hex(bytes)}),
            Ev::Deliver { c, n } => json!({"ev":"deliver","c":c,"n":n}),
            Ev::Advance { ms } => json!({"ev":"advance","ms":ms}),
            Ev::Fin { c } => json!({"ev":"fin","c":c}),
            Ev::Rst { c } => json!({"ev":"rst","c":c}),
            Ev::Window { c, n } => json!({"ev":"window","c":c,"n":n}),
            Ev::Drain { c, n } => json!({"ev":"drain","c":c,"n":n}),
            Ev::ReadCap { c, n } => json!({"ev":"readcap","c":c,"n":n}),
            Ev::WriteCap { c, n } => json!({"ev":"writecap","c":c,"n":n}),
            Ev::AcceptErr { errno } => json!({"ev":"accepterr","errno":errno}),
        }
    }
    pub fn from_json(v: &Value) -> Option<Ev> {
        let c = || v.get("c").and_then(|x| x.as_u64()).map(|x| x as usize);
        let n = || v.get("n").and_then(|x| x.as_u64());
        Some(match v.get("ev")?.as_str()? {
            "connect" => Ev::Connect { c: c()? },
            "send" => Ev::Send {
                c: c()?,
                req: SymReq::from_json(v.get("req")?)?,
            },
            "raw" => Ev::Raw {
                c: c()?,
                bytes: wire::unhex(v.get("hex")?.as_str()?)?,
            },
            "deliver" => Ev::Deliver {
                c: c()?,
                n: n()? as u32,
            },
            "advance" => Ev::Advance {
                ms: v.get("ms")?.as_u64()?,
            },
            "fin" => Ev::Fin { c: c()? },
            "rst" => Ev::Rst { c: c()? },
            "window" => Ev::Window { c: c()?, n: n()? },
            "drain" => Ev::Drain { c: c()?, n: n()? },
            "readcap" => Ev::ReadCap {
                c: c()?,
                n: n()? as u32,
            },
            "writecap" => Ev::WriteCap {
                c: c()?,
                n: n()? as u32,
            },
            "accepterr" => Ev::AcceptErr {
                errno: v.get("errno")?.as_i64()? as i32,
            },
            _ => return None,
        })
    }
}

#[derive(Clone, Copy, Debug, PartialEq, Eq)]
pub enum Policy {
    None,
    Random,
}

#[derive(Clone, Debug, PartialEq, Eq)]
pub struct Knobs {
    pub policy: Policy,
    pub memory_limit: u64,
    pub item_limit: u32,
    pub conn_limit: u32,
    pub timeout_secs: u32,
    pub backlog: u32,
    pub shards: usize,
    pub hash_seed: u64,
    pub rng_seed: u64,
    /// ring N: clock advances of two seconds and more happen in one jump, as if the thread
    /// driving the 1 Hz timer had been stalled meanwhile (it has to catch up afterwards)
    pub stall: bool,
}

impl Knobs {
    pub fn default_for(seed: u64) -> Knobs {
        Knobs {
            policy: Policy::None,
            memory_limit: 1 << 62,
            item_limit: 1024 * 1024,
            conn_limit: 8,
            timeout_secs: 60,
            backlog: 1024,
            shards: 4,
            hash_seed: seed,
            rng_seed: seed ^ 0xabcdef,
            stall: false,
        }
    }
    pub fn to_json(&self) -> Value {
        let mut v = self.to_json_base();
        if self.stall {
            v["stall"] = json!(true);
        }
        v
    }
    fn to_json_base(&self) -> Value {
        json!({
            "policy": if self.policy == Policy::None { "none" } else { "random" },
            "memory_limit": self.memory_limit,
            "item_limit": self.item_limit,
            "conn_limit": self.conn_limit,
            "timeout_secs": self.timeout_secs,
            "backlog": self.backlog,
            "shards": self.shards,
            "hash_seed": self.hash_seed,
            "rng_seed": self.rng_seed,
        })
    }
    pub fn from_json(v: &Value) -> Option<Knobs> {
        let u = |n: &str| v.get(n).and_then(|x| x.as_u64());
        Some(Knobs {
            policy: if v.get("policy")?.as_str()? == "none" {
                Policy::None
            } else {
                Policy::Random
            },
            memory_limit: u("memory_limit")?,
            item_limit: u("item_limit")? as u32,
            conn_limit: u("conn_limit")? as u32,
            timeout_secs: u("timeout_secs")? as u32,
            backlog: u("backlog")? as u32,
            shards: u("shards")? as usize,
            hash_seed: u("hash_seed")?,
            rng_seed: u("rng_seed")?,
            stall: v.get("stall").and_then(|x| x.as_bool()).unwrap_or(false),
        })
    }
}

#[derive(Clone, Debug, PartialEq, Eq)]
pub struct Scenario {
    pub knobs: Knobs,
    pub events: Vec<Ev>,
}

impl Scenario {
    pub fn to_json(&self) -> Value {
        json!({
            "knobs": self.knobs.to_json(),
            "events": self.events.iter().map(|e| e.to_json()).collect::<Vec<_>>(),
        })
    }
    pub fn from_json(v: &Value) -> Option<Scenario> {
        let knobs = Knobs::from_json(v.get("knobs")?)?;
        let mut events = Vec::new();
        for e in v.get("events")?.as_array()? {
            events.push(Ev::from_json(e)?);
        }
        Some(Scenario { knobs, events })
    }
    /// Convenience: a request that is sent and delivered in one piece.
    pub fn push_req(&mut self, c: usize, req: SymReq) {
        self.events.push(Ev::Send { c, req });
        self.events.push(Ev::Deliver { c, n: u32::MAX });
    }
    pub fn n_requests(&self) -> usize {
        self.events.iter().filter(|e| matches!(e, Ev::Send { .. })).count()
    }
}

pub fn is_quiet_opcode(opcode: u8) -> bool {
    op_info(opcode).quiet
}

pub const ALL_GETS: [u8; 4] = [op::GET, op::GETQ, op::GETK, op::GETKQ];
