//! Executable reference model of the command set's sequential semantics (§6.1).
//!
//! Written from the property statements. It is *observational* about CAS
//! numbers (takes what the server acknowledges and then relates them) and
//! permissive exactly where the statements are silent (DESIGN §6.1, §14).
//! Every failed clause is tagged with the property it belongs to.
#![allow(dead_code)]
use crate::wire::{self, op_info, status, Kind, Request, Response};
use std::collections::{BTreeMap, BTreeSet};

pub const INF: u64 = u64::MAX;
/// Largest TTL / flush delay read as "seconds from now". C05 and C08 state
/// every TTL and delay as a number of seconds from the store / the flush; there
/// is no "absolute time above 30 days" reading in them (nor in the code), so
/// nothing is exempt.
pub const MAX_REL_TTL: u32 = u32::MAX;

#[derive(Clone, Debug, PartialEq, Eq)]
pub struct Violation {
    pub prop: &'static str,
    pub clause: &'static str,
    pub detail: String,
}

impl Violation {
    pub fn new(prop: &'static str, clause: &'static str, detail: String) -> Violation {
        Violation {
            prop,
            clause,
            detail,
        }
    }
    pub fn signature(&self) -> String {
        if self.clause == "panic" {
            // panics are told apart by their source location
            if let Some(i) = self.detail.rfind(" at ") {
                let loc = &self.detail[i + 4..];
                let loc = loc.rsplit('/').next().unwrap_or(loc);
                return format!("{}:panic@{}", self.prop, loc);
            }
        }
        format!("{}:{}", self.prop, self.clause)
    }
}

#[derive(Clone, Copy, Debug, PartialEq, Eq)]
pub enum Gone {
    Never,
    Deleted,
    Flushed,
    Expired,
    Lost,
}

#[derive(Clone, Debug)]
pub struct Item {
    pub value: Vec<u8>,
    /// None: not determined by the statements (counter created by incr/decr)
    pub flags: Option<u32>,
    /// None: the mutation was quiet, the CAS has not been observed yet
    pub cas: Option<u64>,
    pub cas_seen: BTreeSet<u64>,
    /// lifetime begun by a store carrying a client CAS for an absent key
    pub client_cas_lifetime: bool,
    /// must be present at every t < lo
    pub lo: u64,
    /// must be absent at every t >= hi
    pub hi: u64,
    /// the TTLs the server may legitimately hold for it
    pub ttl: TtlSet,
    pub last_mut: Kind,
    /// any outcome is accepted for this key until the next unconditional store
    pub unknown: bool,
    /// set when `hi` is the deadline of a delayed flush rather than the item's own expiry
    pub hi_from_flush: bool,
}

/// Candidate TTLs an item may carry: the largest finite one and whether
/// "never expires" is among them. `any`: the item was learned from an answer
/// after a stretch in which the model did not know its state, so the TTL the
/// server holds for it is not known at all (a later in-place mutation may
/// restart it with any TTL).
#[derive(Clone, Copy, Debug, PartialEq, Eq)]
pub struct TtlSet {
    pub fin: u32,
    pub inf: bool,
    pub any: bool,
}

impl TtlSet {
    pub fn unknown() -> TtlSet {
        TtlSet { fin: 0, inf: true, any: true }
    }
}

impl From<u32> for TtlSet {
    fn from(t: u32) -> TtlSet {
        if t == 0 || t > MAX_REL_TTL {
            TtlSet { fin: 0, inf: true, any: false }
        } else {
            TtlSet { fin: t, inf: false, any: false }
        }
    }
}


#[derive(Clone, Copy, Debug, PartialEq, Eq)]
pub enum Presence {
    Absent,
    /// now < lo
    Present,
    /// lo <= now < hi
    Either,
    /// now >= hi but the server may still hold the record (lazy expiry)
    Expired,
    Unknown,
}

#[derive(Clone, Copy, Debug, PartialEq, Eq)]
pub enum Num {
    Numeric(u64),
    NonNumeric,
    /// the statement does not settle it (signs, spaces, zero padding)
    Unclear(Option<u64>),
}

pub fn classify_number(v: &[u8]) -> Num {
    if v.is_empty() {
        return Num::NonNumeric;
    }
    if v.iter().all(|b| b.is_ascii_digit()) {
        // digits only
        let s = std::str::from_utf8(v).unwrap();
        return match s.parse::<u64>() {
            // digits only and within range: an ASCII decimal u64, zero padded or not
            Ok(n) => Num::Numeric(n),
            Err(_) => {
                // too many digits: overflow unless it is zero padding
                let trimmed: &[u8] = {
                    let mut i = 0;
                    while i + 1 < v.len() && v[i] == b'0' {
                        i += 1;
                    }
                    &v[i..]
                };
                match std::str::from_utf8(trimmed).unwrap().parse::<u64>() {
                    // more than 20 characters, but only because of zero padding
                    Ok(n) => Num::Numeric(n),
                    Err(_) => Num::NonNumeric,
                }
            }
        };
    }
    if v
        .iter()
        .all(|b| b.is_ascii_digit() || matches!(b, b' ' | b'+' | b'-' | b'\t' | b'\r' | b'\n'))
        && v.iter().any(|b| b.is_ascii_digit())
    {
        let t: Vec<u8> = v
            .iter()
            .copied()
            .filter(|b| b.is_ascii_digit())
            .collect();
        let n = std::str::from_utf8(&t).unwrap().parse::<u64>().ok();
        return Num::Unclear(n);
    }
    Num::NonNumeric
}

/// Which property is charged when a key that must be present is missing.
#[derive(Clone, Copy, Debug, PartialEq, Eq)]
pub enum LossMode {
    /// eviction disabled or limit unreachable: any loss is a violation
    Strict,
    /// random eviction under a generous limit: loss charged to C15
    ChargeC15,
    /// eviction under real pressure: loss is legitimate
    Allowed,
}

#[derive(Clone, Debug)]
pub struct Model {
    pub now: u64,
    pub items: BTreeMap<Vec<u8>, Item>,
    pub gone: BTreeMap<Vec<u8>, Gone>,
    /// every CAS ever acknowledged per key (for stale-token choices)
    pub issued: BTreeMap<Vec<u8>, Vec<u64>>,
    pub item_limit: u32,
    pub loss: LossMode,
    /// seconds around an expiry instant in which either outcome is accepted
    /// (0 in the expiry check itself; 1 elsewhere, so that an off-by-one in
    /// the expiry predicate is reported by C05 only)
    pub expiry_slack: u64,
    pub violations: Vec<Violation>,
    /// coverage cells: (kind, outcome, presence)
    pub cells: BTreeSet<(Kind, u16, u8)>,
    pub state_dependent: u64,
    /// a frame whose execution the statements leave open was executed: keys the
    /// model has never heard of may exist now
    pub wild: bool,
    /// number of successful mutations so far: each draws at most one token from the global
    /// counter, which starts at 1, so the counter cannot have *counted* beyond draws + 1. Used to
    /// tell the recorded known finding of C02 (the counter reaches a client-derived token by
    /// counting) from a counter that was moved onto one.
    pub draws: u64,
}

fn pres_code(p: Presence) -> u8 {
    match p {
        Presence::Absent => 0,
        Presence::Present => 1,
        Presence::Either => 2,
        Presence::Expired => 3,
        Presence::Unknown => 4,
    }
}

impl Model {
    pub fn new(item_limit: u32, loss: LossMode) -> Model {
        Model {
            now: 0,
            items: BTreeMap::new(),
            gone: BTreeMap::new(),
            issued: BTreeMap::new(),
            item_limit,
            loss,
            expiry_slack: 0,
            violations: Vec::new(),
            cells: BTreeSet::new(),
            state_dependent: 0,
            wild: false,
            draws: 0,
        }
    }

    fn v(&mut self, prop: &'static str, clause: &'static str, detail: String) {
        self.violations.push(Violation::new(prop, clause, detail));
    }

    pub fn take_violations(&mut self) -> Vec<Violation> {
        std::mem::take(&mut self.violations)
    }

    pub fn presence(&self, key: &[u8]) -> Presence {
        match self.items.get(key) {
            None => Presence::Absent,
            Some(it) => {
                if it.unknown {
                    Presence::Unknown
                } else if self.now.saturating_add(self.expiry_slack) < it.lo {
                    Presence::Present
                } else if self.now < it.hi.saturating_add(self.expiry_slack) {
                    Presence::Either
                } else {
                    Presence::Expired
                }
            }
        }
    }

    /// keys the model says must be retrievable right now
    pub fn must_present_keys(&self) -> Vec<Vec<u8>> {
        self.items
            .iter()
            .filter(|(_, it)| !it.unknown && self.now.saturating_add(self.expiry_slack) < it.lo)
            .map(|(k, _)| k.clone())
            .collect()
    }

    pub fn current_cas(&self, key: &[u8]) -> Option<u64> {
        self.items.get(key).and_then(|i| i.cas)
    }

    fn expiry(&self, ttl: u32) -> (u64, u64) {
        if ttl == 0 {
            (INF, INF)
        } else if ttl > MAX_REL_TTL {
            // meaning of such values is not part of any property
            (self.now, INF)
        } else {
            (self.now + ttl as u64, self.now + ttl as u64)
        }
    }

    fn forget(&mut self, key: &[u8], why: Gone) {
        self.items.remove(key);
        self.gone.insert(key.to_vec(), why);
    }

    /// A presence-dependent command observed the key as absent.
    fn observed_absent(&mut self, key: &[u8], p: Presence, prop_hint: &'static str, what: &str) {
        match p {
            Presence::Present => {
                let (has_ttl, last) = {
                    let it = &self.items[key];
                    (it.lo != INF, it.last_mut)
                };
                match self.loss {
                    LossMode::Allowed => {}
                    LossMode::ChargeC15 => self.v(
                        "C15",
                        "live-item-lost",
                        format!("{}: key {} missing although stored data fits under the limit (t={})", what, wire::hex_short(key, 16), self.now),
                    ),
                    LossMode::Strict => {
                        if has_ttl {
                            self.v(
                                "C05",
                                "premature-expiry",
                                format!("{}: key {} missing at t={} before its expiry t={} (last mutation {:?})", what, wire::hex_short(key, 16), self.now, self.items[key].lo, last),
                            )
                        } else {
                            self.v(
                                prop_hint,
                                "item-disappeared",
                                format!("{}: key {} missing at t={} (ttl 0, last mutation {:?})", what, wire::hex_short(key, 16), self.now, last),
                            )
                        }
                    }
                }
                self.forget(key, Gone::Lost);
            }
            Presence::Either | Presence::Expired => self.forget(key, Gone::Expired),
            Presence::Absent | Presence::Unknown => {
                if p == Presence::Unknown {
                    self.forget(key, Gone::Lost)
                }
            }
        }
    }

    /// A command observed the key as present although the model says it must not be.
    fn observed_phantom(&mut self, key: &[u8], p: Presence, what: &str) {
        match p {
            Presence::Expired if self.items[key].hi_from_flush => {
                let hi = self.items[key].hi;
                self.v(
                    "C08",
                    "visible-after-flush-deadline",
                    format!("{}: key {} treated as present at t={} although a delayed flush made everything stored before it unretrievable from t={}", what, wire::hex_short(key, 16), self.now, hi),
                );
            }
            Presence::Expired => {
                let hi = self.items[key].hi;
                self.v(
                    "C05",
                    "visible-after-expiry",
                    format!("{}: key {} treated as present at t={} although it expired at t={}", what, wire::hex_short(key, 16), self.now, hi),
                );
            }
            Presence::Absent => {
                let why = self.gone.get(key).copied().unwrap_or(Gone::Never);
                if self.wild && matches!(why, Gone::Never | Gone::Lost) {
                    // created by a frame the model could not interpret
                    self.mark_unknown(key);
                    return;
                }
                let (prop, clause) = match why {
                    Gone::Deleted => ("C08", "present-after-delete"),
                    Gone::Flushed => ("C08", "present-after-flush"),
                    Gone::Expired => ("C05", "visible-again-after-expiry"),
                    Gone::Never | Gone::Lost => ("C01", "phantom-item"),
                };
                self.v(
                    prop,
                    clause,
                    format!("{}: key {} treated as present at t={} but it is absent ({:?})", what, wire::hex_short(key, 16), self.now, why),
                );
            }
            _ => {}
        }
    }

    fn record_cas(&mut self, key: &[u8], cas: u64) {
        self.issued.entry(key.to_vec()).or_default().push(cas);
    }

    /// Install a new value after a successful mutation.
    #[allow(clippy::too_many_arguments)]
    fn install(
        &mut self,
        key: &[u8],
        value: Vec<u8>,
        flags: Option<u32>,
        cas: Option<u64>,
        kind: Kind,
        fresh_lifetime: bool,
        client_cas: bool,
        lo: u64,
        hi: u64,
        ttl: impl Into<TtlSet>,
        check_unique: bool,
    ) {
        self.draws += 1;
        let mut seen = BTreeSet::new();
        let mut client = client_cas;
        if !fresh_lifetime {
            if let Some(old) = self.items.get(key) {
                seen = old.cas_seen.clone();
                client = client || old.client_cas_lifetime;
            }
        }
        if let Some(c) = cas {
            if c == 0 {
                self.v(
                    "C02",
                    "acknowledged-cas-zero",
                    format!("{:?} of key {} acknowledged with CAS 0", kind, wire::hex_short(key, 16)),
                );
            }
            if check_unique && seen.contains(&c) {
                // the recorded finding: the counter, counting on one by one, arrives at the token
                let reached_by_counting = self.wild || c <= self.draws.saturating_add(1);
                if client && reached_by_counting {
                    // the lifetime began with a CAS-carrying store of an absent key, whose token is
                    // derived from the client's (supplied + 1) and not from the global counter: the
                    // counter reaches that value later
                    self.v(
                        "C02",
                        "cas-reused-in-lifetime-begun-with-client-cas",
                        format!("{:?} of key {} acknowledged CAS {} which the item already carried during this lifetime (seen {:?}); the lifetime began with a CAS-carrying store of an absent key", kind, wire::hex_short(key, 16), c, seen),
                    );
                } else {
                    self.v(
                        "C02",
                        "cas-reused-within-lifetime",
                        format!("{:?} of key {} acknowledged CAS {} which the item already carried during this lifetime (seen {:?})", kind, wire::hex_short(key, 16), c, seen),
                    );
                }
            }
            seen.insert(c);
            self.record_cas(key, c);
        }
        self.gone.remove(key);
        self.items.insert(
            key.to_vec(),
            Item {
                value,
                flags,
                cas,
                cas_seen: seen,
                client_cas_lifetime: client,
                lo,
                hi,
                ttl: ttl.into(),
                last_mut: kind,
                unknown: false,
                hi_from_flush: false,
            },
        );
    }

    /// Learn / check the CAS reported by a retrieval.
    fn see_cas_on_hit(&mut self, key: &[u8], cas: u64) {
        if cas == 0 {
            self.v(
                "C01",
                "hit-with-cas-zero",
                format!("retrieval of key {} reports CAS 0", wire::hex_short(key, 16)),
            );
        }
        let it = self.items.get_mut(key).unwrap();
        match it.cas {
            Some(c) => {
                if c != cas {
                    let d = format!("retrieval of key {} reports CAS {} but the last mutation acknowledged {}", wire::hex_short(key, 16), cas, c);
                    self.v("C02", "retrieved-cas-differs", d);
                    // resynchronise so one defect is reported once
                    let it = self.items.get_mut(key).unwrap();
                    it.cas = Some(cas);
                    it.cas_seen.insert(cas);
                }
            }
            None => {
                let dup = it.cas_seen.contains(&cas);
                let client = it.client_cas_lifetime && (self.wild || cas <= self.draws.saturating_add(1));
                it.cas = Some(cas);
                it.cas_seen.insert(cas);
                if dup {
                    let d = format!("quiet mutation of key {} left CAS {} which the item already carried", wire::hex_short(key, 16), cas);
                    self.v("C02", if client { "cas-reused-in-lifetime-begun-with-client-cas" } else { "cas-reused-within-lifetime" }, d);
                }
                self.record_cas(key, cas);
            }
        }
    }

    pub fn advance(&mut self, secs: u64) {
        self.now += secs;
    }

    pub fn set_now(&mut self, now: u64) {
        self.now = now;
    }

    /// Everything the model knows becomes uncertain (after a frame whose
    /// execution the statements leave open).
    pub fn forget_everything(&mut self) {
        for it in self.items.values_mut() {
            it.unknown = true;
        }
        self.wild = true;
    }

    pub fn mark_unknown(&mut self, key: &[u8]) {
        if let Some(it) = self.items.get_mut(key) {
            it.unknown = true;
        } else {
            self.install(key, Vec::new(), None, None, Kind::Set, true, true, 0, INF, TtlSet::unknown(), false);
            self.items.get_mut(key).unwrap().unknown = true;
        }
    }

    fn cell(&mut self, kind: Kind, st: u16, p: Presence) {
        self.cells.insert((kind, st, pres_code(p)));
        if p != Presence::Absent {
            self.state_dependent += 1;
        }
    }

    /// Apply one executed request and what the server answered (None = silent).
    /// `req` must be a well-formed frame of a known, implemented opcode whose
    /// body is within the item limit (framing-level cases are the driver's).
    pub fn apply(&mut self, req: &Request, resp: Option<&Response>) {
        let info = op_info(req.opcode);
        let key = req.key.clone();
        let mut p = self.presence(&key);
        if self.loss == LossMode::Allowed && p == Presence::Present {
            // under real memory pressure any item may have been evicted
            p = Presence::Either;
        }
        let st: u16 = resp.map(|r| r.status).unwrap_or(0xffff);
        self.cell(info.kind, st, p);
        if info.quiet && st == status::OK && matches!(info.kind, Kind::Set | Kind::Add | Kind::Replace | Kind::Append | Kind::Prepend | Kind::Incr | Kind::Decr | Kind::Delete | Kind::Flush) {
            // C12: quiet mutations respond only on error
            self.v("C12", "quiet-success-answered", format!("quiet {:?} (opcode {:#04x}) succeeded and was answered", info.kind, req.opcode));
        }
        match info.kind {
            Kind::Get => self.apply_get(req, resp, p),
            Kind::Set => self.apply_set(req, resp, p),
            Kind::Add => self.apply_add(req, resp, p),
            Kind::Replace => self.apply_replace(req, resp, p),
            Kind::Append | Kind::Prepend => self.apply_concat(req, resp, p, info.kind),
            Kind::Incr | Kind::Decr => self.apply_counter(req, resp, p, info.kind),
            Kind::Delete => self.apply_delete(req, resp, p),
            Kind::Flush => self.apply_flush(req, resp),
            Kind::Noop | Kind::Version | Kind::Stat | Kind::Quit => {
                if let Some(r) = resp {
                    if r.status != status::OK {
                        self.v("C12", "bare-command-failed", format!("{:?} answered with status {:#06x}", info.kind, r.status));
                    }
                }
            }
            Kind::Unimplemented | Kind::Unknown => {}
        }
        if std::env::var("VERIF_DEBUG_MODEL").is_ok() {
            let it = self.items.get(key.as_slice()).map(|i| format!("lo={} hi={} ttl={:?} unknown={} cas={:?} hi_from_flush={}", i.lo, i.hi, i.ttl, i.unknown, i.cas, i.hi_from_flush));
            eprintln!("[model] t={} {:?} key={} st={:#06x} presence-before={:?} -> {:?}", self.now, info.kind, wire::hex_short(&key, 8), st, p, it);
        }
    }

    fn apply_get(&mut self, req: &Request, resp: Option<&Response>, p: Presence) {
        let key = &req.key;
        let quiet = op_info(req.opcode).quiet;
        match resp {
            None => {
                if !quiet {
                    return; // driver reports missing responses (C12)
                }
                // silent quiet get = miss
                if p == Presence::Present && self.loss == LossMode::Strict {
                    // C19/C12: quiet get must answer on a hit; charge as loss too
                    self.v("C12", "quiet-get-hit-silent", format!("getq/getkq of present key {} produced no response", wire::hex_short(key, 16)));
                }
                self.observed_absent(key, p, "C01", "quiet get");
            }
            Some(r) if r.status == status::OK => {
                match p {
                    Presence::Absent | Presence::Expired => {
                        self.observed_phantom(key, p, "get");
                        if p == Presence::Expired {
                            // keep it (still expired) so the defect is reported once per access
                        }
                        return;
                    }
                    Presence::Unknown => {
                        // learn everything from the hit
                        let flags = r.flags();
                        let it = self.items.get_mut(key.as_slice()).unwrap();
                        it.value = r.value().to_vec();
                        it.flags = flags;
                        it.cas = Some(r.cas);
                        it.cas_seen.insert(r.cas);
                        it.unknown = false;
                        it.lo = self.now;
                        it.hi = INF;
                        it.ttl = TtlSet::unknown();
                        it.client_cas_lifetime = true;
                        return;
                    }
                    Presence::Present | Presence::Either => {}
                }
                let (value, flags, last) = {
                    let it = &self.items[key.as_slice()];
                    (it.value.clone(), it.flags, it.last_mut)
                };
                if r.value() != value.as_slice() {
                    let prop = match last {
                        Kind::Incr | Kind::Decr => "C07",
                        Kind::Append | Kind::Prepend => "C06",
                        _ => "C01",
                    };
                    self.v(
                        prop,
                        "retrieved-value-differs",
                        format!("get of key {} returned value {} (len {}), expected {} (len {}) after {:?}", wire::hex_short(key, 16), wire::hex_short(r.value(), 32), r.value().len(), wire::hex_short(&value, 32), value.len(), last),
                    );
                    self.items.get_mut(key.as_slice()).unwrap().value = r.value().to_vec();
                }
                match (flags, r.flags()) {
                    (Some(f), Some(g)) if f != g => {
                        let prop = match last {
                            Kind::Incr | Kind::Decr => "C07",
                            Kind::Append | Kind::Prepend => "C06",
                            _ => "C01",
                        };
                        self.v(
                            prop,
                            "retrieved-flags-differ",
                            format!("get of key {} returned flags {:#010x}, expected {:#010x} after {:?}", wire::hex_short(key, 16), g, f, last),
                        );
                        self.items.get_mut(key.as_slice()).unwrap().flags = Some(g);
                    }
                    (None, Some(g)) => {
                        self.items.get_mut(key.as_slice()).unwrap().flags = Some(g);
                    }
                    _ => {}
                }
                self.see_cas_on_hit(key, r.cas);
            }
            Some(r) if r.status == status::NOT_FOUND => {
                if quiet {
                    self.v("C12", "quiet-get-miss-answered", format!("getq/getkq miss of key {} was answered", wire::hex_short(key, 16)));
                }
                self.observed_absent(key, p, "C01", "get");
            }
            Some(r) => {
                self.v("C01", "get-unexpected-status", format!("get of key {} answered with status {:#06x}", wire::hex_short(key, 16), r.status));
            }
        }
    }

    /// Decide a CAS-conditional store on a key whose presence is `p`.
    /// Returns Some(true) = must succeed, Some(false) = must fail with EXISTS,
    /// None = either.
    fn cas_verdict(&self, key: &[u8], req_cas: u64, p: Presence) -> Option<bool> {
        if req_cas == 0 {
            return Some(true);
        }
        match p {
            Presence::Present => match self.items[key].cas {
                Some(c) => Some(c == req_cas),
                None => None,
            },
            _ => None,
        }
    }

    fn store_ttl(req: &Request) -> (u32, u32) {
        // (flags, ttl) from a set-shaped extras block
        let e = &req.extras;
        if e.len() == 8 {
            (
                u32::from_be_bytes([e[0], e[1], e[2], e[3]]),
                u32::from_be_bytes([e[4], e[5], e[6], e[7]]),
            )
        } else {
            (0, 0)
        }
    }

    fn apply_set(&mut self, req: &Request, resp: Option<&Response>, p: Presence) {
        let key = req.key.clone();
        let (flags, ttl) = Model::store_ttl(req);
        let (lo, hi) = self.expiry(ttl);
        let st = match resp {
            Some(r) => r.status,
            None => {
                if !op_info(req.opcode).quiet {
                    return;
                }
                status::OK
            }
        };
        let cas = resp.map(|r| r.cas);
        if req.cas == 0 {
            if st != status::OK {
                self.v("C01", "unconditional-store-refused", format!("set of key {} answered with status {:#06x}", wire::hex_short(&key, 16), st));
                return;
            }
            let fresh = !matches!(p, Presence::Present);
            self.install(&key, req.value.clone(), Some(flags), cas, Kind::Set, fresh, false, lo, hi, ttl, true);
            return;
        }
        // conditional
        match p {
            Presence::Present => {
                let verdict = self.cas_verdict(&key, req.cas, p);
                match (verdict, st) {
                    (Some(true), status::OK) | (None, status::OK) => {
                        self.install(&key, req.value.clone(), Some(flags), cas, Kind::Set, false, false, lo, hi, ttl, true);
                    }
                    (Some(false), status::EXISTS) | (None, status::EXISTS) => {}
                    (Some(true), s) => {
                        self.v("C02", "matching-cas-refused", format!("set of key {} with its current CAS {} answered {:#06x}", wire::hex_short(&key, 16), req.cas, s));
                    }
                    (Some(false), status::OK) => {
                        let cur = self.items[key.as_slice()].cas;
                        self.v("C02", "stale-cas-accepted", format!("set of key {} with CAS {} succeeded although the current CAS is {:?} (lost update)", wire::hex_short(&key, 16), req.cas, cur));
                        self.install(&key, req.value.clone(), Some(flags), cas, Kind::Set, false, false, lo, hi, ttl, false);
                    }
                    (_, s) => {
                        self.v("C02", "cas-mismatch-wrong-status", format!("set of key {} with stale CAS {} answered {:#06x}, expected 0x0002", wire::hex_short(&key, 16), req.cas, s));
                    }
                }
            }
            Presence::Absent => match st {
                status::OK => {
                    self.install(&key, req.value.clone(), Some(flags), cas, Kind::Set, true, true, lo, hi, ttl, false);
                }
                status::NOT_FOUND => {}
                s => {
                    self.v("C02", "cas-store-on-absent-wrong-status", format!("set of absent key {} with CAS {} answered {:#06x}", wire::hex_short(&key, 16), req.cas, s));
                }
            },
            Presence::Either | Presence::Expired | Presence::Unknown => match st {
                status::OK => {
                    self.install(&key, req.value.clone(), Some(flags), cas, Kind::Set, true, true, lo, hi, ttl, false);
                }
                status::NOT_FOUND => {
                    self.forget(&key, Gone::Expired);
                }
                status::EXISTS => {}
                s => {
                    self.v("C02", "cas-store-wrong-status", format!("set of key {} with CAS {} answered {:#06x}", wire::hex_short(&key, 16), req.cas, s));
                }
            },
        }
    }

    fn apply_add(&mut self, req: &Request, resp: Option<&Response>, p: Presence) {
        let key = req.key.clone();
        let (flags, ttl) = Model::store_ttl(req);
        let (lo, hi) = self.expiry(ttl);
        let quiet = op_info(req.opcode).quiet;
        let st = match resp {
            Some(r) => r.status,
            None => {
                if !quiet {
                    return;
                }
                status::OK
            }
        };
        let cas = resp.map(|r| r.cas);
        match p {
            Presence::Present => {
                if st == status::OK {
                    if resp.is_none() {
                        self.v("C12", "quiet-error-suppressed", format!("addq of present key {} was silent (must answer 'key exists')", wire::hex_short(&key, 16)));
                    } else {
                        self.v("C06", "add-overwrote-present", format!("add of present key {} succeeded", wire::hex_short(&key, 16)));
                        self.install(&key, req.value.clone(), Some(flags), cas, Kind::Add, false, false, lo, hi, ttl, false);
                    }
                } else if st != status::EXISTS {
                    self.v("C06", "add-present-wrong-status", format!("add of present key {} answered {:#06x}, expected 0x0002", wire::hex_short(&key, 16), st));
                }
            }
            Presence::Absent | Presence::Expired => {
                if st == status::OK {
                    let client = req.cas != 0;
                    self.install(&key, req.value.clone(), Some(flags), cas, Kind::Add, true, client, lo, hi, ttl, false);
                } else if req.cas != 0 && st == status::NOT_FOUND {
                    // a CAS-carrying add of a missing key may be refused with 'not found'
                    // (as a CAS-carrying set may). 'key exists' is not open: add treats an
                    // expired item as absent (C05) whether or not it carries a CAS.
                } else if p == Presence::Expired && st == status::EXISTS {
                    self.observed_phantom(&key, p, "add");
                } else {
                    self.v("C06", "add-absent-refused", format!("add of absent key {} answered {:#06x}", wire::hex_short(&key, 16), st));
                }
            }
            Presence::Either | Presence::Unknown => {
                if st == status::OK {
                    self.install(&key, req.value.clone(), Some(flags), cas, Kind::Add, true, req.cas != 0, lo, hi, ttl, false);
                } else if st == status::EXISTS {
                    // it was still there: fine
                } else if req.cas != 0 && st == status::NOT_FOUND {
                } else {
                    self.v("C06", "add-wrong-status", format!("add of key {} answered {:#06x}", wire::hex_short(&key, 16), st));
                }
            }
        }
    }

    fn apply_replace(&mut self, req: &Request, resp: Option<&Response>, p: Presence) {
        let key = req.key.clone();
        let (flags, ttl) = Model::store_ttl(req);
        let (lo, hi) = self.expiry(ttl);
        let quiet = op_info(req.opcode).quiet;
        let st = match resp {
            Some(r) => r.status,
            None => {
                if !quiet {
                    return;
                }
                status::OK
            }
        };
        let cas = resp.map(|r| r.cas);
        match p {
            Presence::Present => {
                let verdict = self.cas_verdict(&key, req.cas, p);
                match (verdict, st) {
                    (Some(true), status::OK) | (None, status::OK) => {
                        self.install(&key, req.value.clone(), Some(flags), cas, Kind::Replace, false, false, lo, hi, ttl, true);
                    }
                    (Some(false), status::EXISTS) | (None, status::EXISTS) => {}
                    (Some(false), status::OK) => {
                        let cur = self.items[key.as_slice()].cas;
                        self.v("C02", "stale-cas-accepted", format!("replace of key {} with CAS {} succeeded although the current CAS is {:?}", wire::hex_short(&key, 16), req.cas, cur));
                        self.install(&key, req.value.clone(), Some(flags), cas, Kind::Replace, false, false, lo, hi, ttl, false);
                    }
                    (Some(true), s) => {
                        if s == status::NOT_FOUND && self.loss == LossMode::Allowed {
                            self.forget(&key, Gone::Lost);
                        } else if req.cas != 0 {
                            self.v("C02", "matching-cas-refused", format!("replace of key {} with its current CAS answered {:#06x}", wire::hex_short(&key, 16), s));
                        } else if s == status::NOT_FOUND {
                            if resp.is_some() {
                                self.observed_absent(&key, p, "C06", "replace");
                            }
                        } else {
                            self.v("C06", "replace-present-refused", format!("replace of present key {} answered {:#06x}", wire::hex_short(&key, 16), s));
                        }
                    }
                    (_, s) => {
                        self.v("C02", "cas-mismatch-wrong-status", format!("replace of key {} with stale CAS answered {:#06x}", wire::hex_short(&key, 16), s));
                    }
                }
            }
            Presence::Absent | Presence::Expired => {
                if st == status::NOT_FOUND {
                    if p == Presence::Expired {
                        self.forget(&key, Gone::Expired);
                    }
                } else if st == status::OK {
                    if resp.is_none() {
                        self.v("C12", "quiet-error-suppressed", format!("replaceq of absent key {} was silent (must answer 'not found')", wire::hex_short(&key, 16)));
                    } else if p == Presence::Expired {
                        self.observed_phantom(&key, p, "replace");
                    } else {
                        self.v("C06", "replace-created-absent", format!("replace of absent key {} succeeded", wire::hex_short(&key, 16)));
                        self.install(&key, req.value.clone(), Some(flags), cas, Kind::Replace, true, true, lo, hi, ttl, false);
                    }
                } else if st == status::EXISTS && req.cas != 0 && p == Presence::Expired {
                    // CAS compared against the uncollected record: open
                } else {
                    self.v("C06", "replace-absent-wrong-status", format!("replace of absent key {} answered {:#06x}, expected 0x0001", wire::hex_short(&key, 16), st));
                }
            }
            Presence::Either | Presence::Unknown => {
                if st == status::OK {
                    self.install(&key, req.value.clone(), Some(flags), cas, Kind::Replace, true, true, lo, hi, ttl, false);
                } else if st == status::NOT_FOUND {
                    self.forget(&key, Gone::Expired);
                } else if st == status::EXISTS && req.cas != 0 {
                } else {
                    self.v("C06", "replace-wrong-status", format!("replace of key {} answered {:#06x}", wire::hex_short(&key, 16), st));
                }
            }
        }
    }

    /// new (lo, hi, ttl candidates) after an in-place mutation at `now`: the union
    /// of "expiry kept", "restarted from now with a TTL it may hold" and
    /// (counters) "restarted with the TTL of the request"
    fn inplace_interval(&self, it: &Item, extra_ttl: Option<u32>) -> (u64, u64, TtlSet) {
        let mut lo = it.lo;
        let mut t = it.ttl;
        if let Some(x) = extra_ttl {
            if x == 0 {
                t.inf = true;
            } else if x > MAX_REL_TTL {
                t.inf = true;
                lo = lo.min(self.now);
            } else {
                lo = lo.min(self.now + x as u64);
                t.fin = t.fin.max(x);
            }
        }
        let restart = if t.inf || t.any { INF } else { self.now.saturating_add(t.fin as u64) };
        let hi = it.hi.max(restart);
        (lo, hi, t)
    }

    fn apply_concat(&mut self, req: &Request, resp: Option<&Response>, p: Presence, kind: Kind) {
        let key = req.key.clone();
        let quiet = op_info(req.opcode).quiet;
        let st = match resp {
            Some(r) => r.status,
            None => {
                if !quiet {
                    return;
                }
                status::OK
            }
        };
        let cas = resp.map(|r| r.cas);
        let name = if kind == Kind::Append { "append" } else { "prepend" };
        match p {
            Presence::Present | Presence::Either => {
                let it = self.items[key.as_slice()].clone();
                let mut nv = Vec::with_capacity(it.value.len() + req.value.len());
                if kind == Kind::Append {
                    nv.extend_from_slice(&it.value);
                    nv.extend_from_slice(&req.value);
                } else {
                    nv.extend_from_slice(&req.value);
                    nv.extend_from_slice(&it.value);
                }
                let verdict = if p == Presence::Present { self.cas_verdict(&key, req.cas, p) } else { None };
                let (lo, hi, tm) = self.inplace_interval(&it, None);
                let too_big = nv.len() as u64 + key.len() as u64 > self.item_limit as u64;
                match st {
                    status::OK => {
                        if verdict == Some(false) {
                            self.v("C02", "stale-cas-accepted", format!("{} of key {} with CAS {} succeeded although the current CAS is {:?}", name, wire::hex_short(&key, 16), req.cas, it.cas));
                        }
                        self.install(&key, nv, it.flags, cas, kind, false, false, lo, hi, tm, verdict != Some(false));
                        if p == Presence::Either {
                            // it was alive; the guarantee of its old expiry stands
                        }
                    }
                    status::EXISTS if req.cas != 0 && verdict != Some(true) => {}
                    status::EXISTS if req.cas != 0 => {
                        self.v("C02", "matching-cas-refused", format!("{} of key {} with its current CAS answered 0x0002", name, wire::hex_short(&key, 16)));
                    }
                    status::TOO_LARGE if too_big => {}
                    status::NOT_FOUND | status::NOT_STORED => {
                        if resp.is_some() || p == Presence::Either {
                            self.observed_absent(&key, p, "C06", name);
                        }
                    }
                    s => {
                        self.v("C06", "concat-wrong-status", format!("{} of present key {} answered {:#06x}", name, wire::hex_short(&key, 16), s));
                    }
                }
            }
            Presence::Absent | Presence::Expired => {
                if st == status::NOT_FOUND || st == status::NOT_STORED {
                    if p == Presence::Expired {
                        self.forget(&key, Gone::Expired);
                    }
                } else if st == status::OK {
                    if resp.is_none() {
                        self.v("C12", "quiet-error-suppressed", format!("quiet {} of absent key {} was silent", name, wire::hex_short(&key, 16)));
                    } else if p == Presence::Expired {
                        self.observed_phantom(&key, p, name);
                    } else {
                        self.v("C06", "concat-created-absent", format!("{} of absent key {} succeeded", name, wire::hex_short(&key, 16)));
                        self.mark_unknown(&key);
                    }
                } else if st == status::EXISTS && req.cas != 0 && p == Presence::Expired {
                } else {
                    self.v("C06", "concat-absent-wrong-status", format!("{} of absent key {} answered {:#06x}", name, wire::hex_short(&key, 16), st));
                }
            }
            Presence::Unknown => {
                if st == status::OK {
                    self.mark_unknown(&key);
                }
            }
        }
    }

    fn counter_args(req: &Request) -> (u64, u64, u32) {
        let e = &req.extras;
        if e.len() == 20 {
            let mut a = [0u8; 8];
            a.copy_from_slice(&e[0..8]);
            let mut b = [0u8; 8];
            b.copy_from_slice(&e[8..16]);
            (
                u64::from_be_bytes(a),
                u64::from_be_bytes(b),
                u32::from_be_bytes([e[16], e[17], e[18], e[19]]),
            )
        } else {
            (0, 0, 0)
        }
    }

    fn apply_counter(&mut self, req: &Request, resp: Option<&Response>, p: Presence, kind: Kind) {
        let key = req.key.clone();
        let quiet = op_info(req.opcode).quiet;
        let (delta, initial, exp) = Model::counter_args(req);
        let st = match resp {
            Some(r) => r.status,
            None => {
                if !quiet {
                    return;
                }
                status::OK
            }
        };
        let cas = resp.map(|r| r.cas);
        let name = if kind == Kind::Incr { "incr" } else { "decr" };
        match p {
            Presence::Present | Presence::Either => {
                let it = self.items[key.as_slice()].clone();
                let num = classify_number(&it.value);
                let verdict = if p == Presence::Present { self.cas_verdict(&key, req.cas, p) } else { None };
                let compute = |v: u64| -> u64 {
                    if kind == Kind::Incr {
                        v.wrapping_add(delta)
                    } else {
                        v.saturating_sub(delta)
                    }
                };
                match st {
                    status::OK => {
                        let base = match num {
                            Num::Numeric(v) => Some(v),
                            Num::Unclear(v) => v,
                            Num::NonNumeric => None,
                        };
                        if p == Presence::Either && exp != 0xffff_ffff {
                            // the item may really have expired: then this request created it
                            let got = resp.and_then(|r| r.counter());
                            let creation_possible = got.map(|g| g == initial).unwrap_or(true);
                            let inplace_possible = match (num, base) {
                                (Num::NonNumeric, _) => false,
                                (_, Some(b)) => got.map(|g| g == compute(b)).unwrap_or(true),
                                (_, None) => true,
                            };
                            if creation_possible && !inplace_possible {
                                let (lo, hi) = self.expiry(exp);
                                self.install(&key, initial.to_string().into_bytes(), None, cas, kind, true, false, lo, hi, exp, false);
                                return;
                            }
                            if creation_possible && inplace_possible {
                                match got {
                                    Some(g) => {
                                        let (clo, chi) = self.expiry(exp);
                                        let (ilo, ihi, tm) = self.inplace_interval(&it, Some(exp));
                                        self.install(&key, g.to_string().into_bytes(), None, cas, kind, true, true, clo.min(ilo), chi.max(ihi), tm, false);
                                    }
                                    None => self.mark_unknown(&key),
                                }
                                return;
                            }
                        }
                        if num == Num::NonNumeric {
                            self.v("C07", "non-numeric-accepted", format!("{} of key {} holding non-numeric value {} succeeded", name, wire::hex_short(&key, 16), wire::hex_short(&it.value, 24)));
                            self.mark_unknown(&key);
                            return;
                        }
                        if verdict == Some(false) {
                            self.v("C02", "stale-cas-accepted", format!("{} of key {} with CAS {} succeeded although the current CAS is {:?}", name, wire::hex_short(&key, 16), req.cas, it.cas));
                        }
                        // an update of an existing counter keeps the item's own TTL: the request's
                        // expiration field is for creation only ("an item with TTL 0 never expires",
                        // "last successful mutation plus its TTL")
                        let (lo, hi, tm) = self.inplace_interval(&it, None);
                        match (base, resp.and_then(|r| r.counter())) {
                            (Some(b), got) => {
                                let want = compute(b);
                                if let Some(g) = got {
                                    if g != want {
                                        self.v("C07", "wrong-arithmetic", format!("{} of {} by {} returned {}, expected {}", name, b, delta, g, want));
                                    }
                                }
                                let stored = got.unwrap_or(want);
                                self.install(&key, stored.to_string().into_bytes(), it.flags, cas, kind, false, false, lo, hi, tm, verdict != Some(false));
                            }
                            (None, Some(g)) => {
                                self.install(&key, g.to_string().into_bytes(), it.flags, cas, kind, false, false, lo, hi, tm, verdict != Some(false));
                            }
                            (None, None) => self.mark_unknown(&key),
                        }
                    }
                    status::NON_NUMERIC => {
                        if matches!(num, Num::Numeric(_)) && p == Presence::Present {
                            self.v("C07", "numeric-refused", format!("{} of key {} holding {} answered 'non-numeric'", name, wire::hex_short(&key, 16), String::from_utf8_lossy(&it.value)));
                        }
                    }
                    status::EXISTS if req.cas != 0 && verdict != Some(true) => {}
                    status::EXISTS if req.cas != 0 => {
                        self.v("C02", "matching-cas-refused", format!("{} of key {} with its current CAS answered 0x0002", name, wire::hex_short(&key, 16)));
                    }
                    status::NOT_FOUND => {
                        if exp == 0xffff_ffff {
                            if resp.is_some() || p == Presence::Either {
                                self.observed_absent(&key, p, "C07", name);
                            }
                        } else {
                            self.v("C07", "counter-wrong-status", format!("{} of key {} answered 'not found' although creation was allowed", name, wire::hex_short(&key, 16)));
                        }
                    }
                    s => {
                        self.v("C07", "counter-wrong-status", format!("{} of present key {} answered {:#06x}", name, wire::hex_short(&key, 16), s));
                    }
                }
            }
            Presence::Absent | Presence::Expired => {
                if exp == 0xffff_ffff {
                    if st == status::NOT_FOUND {
                        if p == Presence::Expired {
                            self.forget(&key, Gone::Expired);
                        }
                    } else if st == status::OK {
                        if resp.is_none() {
                            self.v("C12", "quiet-error-suppressed", format!("quiet {} of absent key {} with expiration 0xffffffff was silent", name, wire::hex_short(&key, 16)));
                        } else if p == Presence::Expired {
                            self.observed_phantom(&key, p, name);
                        } else {
                            self.v("C07", "created-despite-ffffffff", format!("{} of absent key {} with expiration 0xffffffff created it", name, wire::hex_short(&key, 16)));
                            self.mark_unknown(&key);
                        }
                    } else if p == Presence::Expired && (st == status::NON_NUMERIC || st == status::EXISTS) {
                        self.observed_phantom(&key, p, name);
                    } else {
                        self.v("C07", "counter-wrong-status", format!("{} of absent key {} (no creation) answered {:#06x}", name, wire::hex_short(&key, 16), st));
                    }
                } else if st == status::OK {
                    if let Some(r) = resp {
                        match r.counter() {
                            Some(g) if g == initial => {}
                            Some(g) => {
                                if p == Presence::Expired {
                                    self.observed_phantom(&key, p, name);
                                } else {
                                    self.v("C07", "wrong-initial", format!("{} created key {} with {}, expected initial {}", name, wire::hex_short(&key, 16), g, initial));
                                }
                            }
                            None => {}
                        }
                    }
                    let (lo, hi) = self.expiry(exp);
                    self.install(&key, initial.to_string().into_bytes(), None, cas, kind, true, false, lo, hi, exp, false);
                } else if p == Presence::Expired && (st == status::NON_NUMERIC || st == status::EXISTS) {
                    self.observed_phantom(&key, p, name);
                } else {
                    self.v("C07", "creation-refused", format!("{} of absent key {} answered {:#06x}, expected creation with the initial value", name, wire::hex_short(&key, 16), st));
                }
            }
            Presence::Unknown => {
                if st == status::OK {
                    if let Some(g) = resp.and_then(|r| r.counter()) {
                        let (lo, hi) = (self.now, INF);
                        self.install(&key, g.to_string().into_bytes(), None, cas, kind, true, true, lo, hi, TtlSet::unknown(), false);
                    } else {
                        self.mark_unknown(&key);
                    }
                }
            }
        }
    }

    fn apply_delete(&mut self, req: &Request, resp: Option<&Response>, p: Presence) {
        let key = req.key.clone();
        let quiet = op_info(req.opcode).quiet;
        let st = match resp {
            Some(r) => r.status,
            None => {
                if !quiet {
                    return;
                }
                status::OK
            }
        };
        match p {
            Presence::Present => {
                let verdict = self.cas_verdict(&key, req.cas, p);
                match (verdict, st) {
                    (Some(true), status::OK) | (None, status::OK) => self.forget(&key, Gone::Deleted),
                    (Some(false), status::EXISTS) | (None, status::EXISTS) => {}
                    (Some(false), status::OK) => {
                        let cur = self.items[key.as_slice()].cas;
                        self.v("C08", "delete-stale-cas-accepted", format!("delete of key {} with CAS {} succeeded although the current CAS is {:?}", wire::hex_short(&key, 16), req.cas, cur));
                        self.forget(&key, Gone::Deleted);
                    }
                    (Some(true), status::NOT_FOUND) => {
                        if resp.is_some() {
                            self.observed_absent(&key, p, "C08", "delete");
                        }
                    }
                    (Some(true), s) => {
                        self.v("C08", "delete-present-wrong-status", format!("delete of present key {} (cas {}) answered {:#06x}", wire::hex_short(&key, 16), req.cas, s));
                    }
                    (_, s) => {
                        self.v("C08", "delete-mismatch-wrong-status", format!("delete of key {} with stale CAS answered {:#06x}, expected 0x0002", wire::hex_short(&key, 16), s));
                    }
                }
            }
            Presence::Absent => {
                if st == status::OK {
                    if resp.is_none() {
                        self.v("C12", "quiet-error-suppressed", format!("deleteq of absent key {} was silent (must answer 'not found')", wire::hex_short(&key, 16)));
                    } else {
                        self.v("C08", "delete-absent-succeeded", format!("delete of absent key {} answered success", wire::hex_short(&key, 16)));
                    }
                } else if st != status::NOT_FOUND {
                    self.v("C08", "delete-absent-wrong-status", format!("delete of absent key {} answered {:#06x}, expected 0x0001", wire::hex_short(&key, 16), st));
                }
            }
            Presence::Expired | Presence::Either | Presence::Unknown => match st {
                status::OK => self.forget(&key, Gone::Deleted),
                status::NOT_FOUND => self.forget(&key, Gone::Expired),
                status::EXISTS if req.cas != 0 => {}
                s => {
                    self.v("C08", "delete-wrong-status", format!("delete of key {} answered {:#06x}", wire::hex_short(&key, 16), s));
                }
            },
        }
    }

    fn apply_flush(&mut self, req: &Request, resp: Option<&Response>) {
        if let Some(r) = resp {
            if r.status != status::OK {
                self.v("C08", "flush-failed", format!("flush answered {:#06x}", r.status));
                return;
            }
        } else if !op_info(req.opcode).quiet {
            return;
        }
        let delay = match req.extras.len() {
            0 => 0u32,
            4 => u32::from_be_bytes([req.extras[0], req.extras[1], req.extras[2], req.extras[3]]),
            _ => {
                self.forget_everything();
                return;
            }
        };
        if delay == 0 {
            let keys: Vec<Vec<u8>> = self.items.keys().cloned().collect();
            for k in keys {
                self.forget(&k, Gone::Flushed);
            }
        } else if delay > MAX_REL_TTL {
            // absolute-time semantics are not part of any property
            self.forget_everything();
        } else {
            let deadline = self.now + delay as u64;
            let now = self.now;
            for it in self.items.values_mut() {
                if deadline < it.hi {
                    it.hi_from_flush = true;
                }
                it.hi = it.hi.min(deadline);
                it.lo = it.lo.min(now);
                // (an item whose TTL is not known keeps that mark: the flush only bounds its life
                // as long as nothing restarts it)
                it.ttl = TtlSet { fin: it.ttl.fin.max(delay), inf: false, any: it.ttl.any };
            }
        }
    }
}
