//! Seeded workload generator (swarm style: every run draws a profile).
#![allow(dead_code)]
use crate::rng::Rng;
use crate::scenario::{CasSel, Ev, Knobs, Scenario, SymReq, Val};
use crate::wire::op;

#[derive(Clone, Debug)]
pub struct Weights {
    pub get: u32,
    pub set: u32,
    pub add: u32,
    pub replace: u32,
    pub append: u32,
    pub prepend: u32,
    pub incr: u32,
    pub decr: u32,
    pub delete: u32,
    pub flush_now: u32,
    pub flush_delay: u32,
    pub bare: u32,
}

impl Weights {
    pub fn uniform() -> Weights {
        Weights {
            get: 30,
            set: 20,
            add: 8,
            replace: 8,
            append: 6,
            prepend: 6,
            incr: 8,
            decr: 6,
            delete: 8,
            flush_now: 1,
            flush_delay: 1,
            bare: 2,
        }
    }
    fn as_vec(&self) -> Vec<u32> {
        vec![
            self.get,
            self.set,
            self.add,
            self.replace,
            self.append,
            self.prepend,
            self.incr,
            self.decr,
            self.delete,
            self.flush_now,
            self.flush_delay,
            self.bare,
        ]
    }
}

#[derive(Clone, Debug)]
pub struct Profile {
    pub keys: usize,
    pub cmds: usize,
    pub conns: usize,
    pub w: Weights,
    pub quiet_pct: u32,
    pub cas_pct: u32,
    pub ttl_pct: u32,
    pub advance_pct: u32,
    pub numeric_pct: u32,
    pub max_value: usize,
    pub big_value_pct: u32,
    pub batch_pct: u32,
    pub odd_numeric_pct: u32,
    /// TTLs to draw from
    pub ttls: Vec<u32>,
    /// largest single clock advance in seconds (besides targeted ones)
    pub far_advance: u64,
    /// final read of every key
    pub final_dump: bool,
    /// only whole-second advances (ring H)
    pub whole_seconds: bool,
    /// chance that a mutation is followed at once by a loud get of its key
    /// (pins a wrong value / flags / CAS on the command that caused it)
    pub verify_pct: u32,
    /// hard cap on any single clock advance in seconds (ring N ticks the real
    /// 1 Hz SystemTimer through every virtual second)
    pub advance_cap: u64,
}

impl Profile {
    pub fn base() -> Profile {
        Profile {
            keys: 4,
            cmds: 40,
            conns: 1,
            w: Weights::uniform(),
            quiet_pct: 15,
            cas_pct: 15,
            ttl_pct: 30,
            advance_pct: 15,
            numeric_pct: 30,
            max_value: 64,
            big_value_pct: 2,
            batch_pct: 0,
            odd_numeric_pct: 10,
            ttls: vec![1, 2, 3, 5, 60, 3600, 86400, 2_592_000],
            far_advance: 100_000,
            final_dump: true,
            whole_seconds: true,
            verify_pct: 60,
            advance_cap: u64::MAX,
        }
    }
}

pub const NUMERIC_EDGE: [&str; 12] = [
    "0",
    "1",
    "9",
    "10",
    "18446744073709551615",
    "18446744073709551614",
    "9223372036854775807",
    "9223372036854775808",
    "4294967295",
    "4294967296",
    "99",
    "1000000",
];

pub const NUMERIC_ODD: [&[u8]; 15] = [
    b"000000000000000000041",
    b"018446744073709551615",
    b"00000000000000000000000000000000",
    b"007",
    b"+5",
    b" 5",
    b"5 ",
    b"-1",
    b"",
    b"12a",
    b"\xff\xfe",
    b"99999999999999999999",
    b"18446744073709551616",
    b"0x10",
    b"1e3",
];

pub fn gen_keys(rng: &mut Rng, n: usize) -> Vec<Vec<u8>> {
    let mut keys: Vec<Vec<u8>> = Vec::new();
    while keys.len() < n {
        let style = rng.below(12);
        let k: Vec<u8> = match style {
            0..=3 => {
                // short printable
                let len = rng.range(1, 12) as usize;
                (0..len).map(|_| b'a' + rng.below(26) as u8).collect()
            }
            4 => {
                // binary, maybe non-UTF-8
                let len = rng.range(1, 40) as usize;
                rng.bytes(len)
            }
            5 => vec![rng.next() as u8], // one byte
            6 => {
                // maximum length
                let mut k = rng.bytes(250);
                k[0] = b'L';
                k
            }
            7 if !keys.is_empty() => {
                // extension of an existing key
                let base = keys[rng.usize(keys.len())].clone();
                let mut k = base;
                let extra = rng.range(1, 4) as usize;
                k.extend(rng.bytes(extra));
                k.truncate(250);
                k
            }
            8 if !keys.is_empty() => {
                // strict prefix of an existing key
                let base = &keys[rng.usize(keys.len())];
                if base.len() > 1 {
                    base[..rng.range(1, base.len() as u64 - 1) as usize].to_vec()
                } else {
                    vec![b'p', base[0]]
                }
            }
            10 | 11 if !keys.is_empty() => {
                // near twin of an existing key: keys are compared byte for byte, in full
                let mut k = keys[rng.usize(keys.len())].clone();
                match rng.below(5) {
                    0 => {
                        let l = k.len() - 1;
                        k[l] ^= 1;
                    }
                    1 => k[0] ^= 0x80,
                    2 => {
                        for b in k.iter_mut() {
                            if b.is_ascii_alphabetic() {
                                *b ^= 0x20;
                            }
                        }
                    }
                    3 => {
                        k.push(*rng.pick(&[0u8, b' ', b'\n', b'\r', b'\t']));
                        k.truncate(250);
                    }
                    _ => {
                        let m = k.len() / 2;
                        k[m] = k[m].wrapping_add(1);
                    }
                }
                k
            }
            _ => {
                let len = rng.range(1, 250) as usize;
                rng.bytes(len)
            }
        };
        if !k.is_empty() && !keys.contains(&k) {
            keys.push(k);
        }
    }
    keys
}

pub fn gen_value(rng: &mut Rng, p: &Profile) -> Val {
    if rng.chance(p.numeric_pct as u64, 100) {
        if rng.chance(p.odd_numeric_pct as u64, 100) {
            return Val::Bytes(NUMERIC_ODD[rng.usize(NUMERIC_ODD.len())].to_vec());
        }
        if rng.chance(1, 2) {
            return Val::Bytes(NUMERIC_EDGE[rng.usize(NUMERIC_EDGE.len())].as_bytes().to_vec());
        }
        return Val::Bytes(rng.next().to_string().into_bytes());
    }
    if rng.chance(p.big_value_pct as u64, 100) && p.max_value > 256 {
        // one in three at a length where a narrower length field or a buffer size would show
        const EDGES: [u64; 14] = [4071, 4072, 4095, 4096, 4097, 8192, 32767, 32768, 65535, 65536, 65537, 70000, 131072, 1 << 18];
        let fits: Vec<u64> = EDGES.iter().copied().filter(|e| *e <= p.max_value as u64).collect();
        let len = if !fits.is_empty() && rng.chance(1, 3) { fits[rng.usize(fits.len())] as u32 } else { rng.range(256, p.max_value as u64) as u32 };
        return Val::Pattern {
            seed: rng.next() as u32,
            len,
        };
    }
    match rng.below(10) {
        0 => Val::Bytes(Vec::new()),
        1 => Val::Fill {
            byte: rng.next() as u8,
            len: rng.range(1, p.max_value.min(64) as u64) as u32,
        },
        _ => {
            let len = rng.range(1, p.max_value.min(48).max(1) as u64) as usize;
            Val::Bytes(rng.bytes(len))
        }
    }
}

pub fn gen_cas(rng: &mut Rng, p: &Profile) -> CasSel {
    if !rng.chance(p.cas_pct as u64, 100) {
        return CasSel::Zero;
    }
    match rng.below(12) {
        0..=4 => CasSel::Current,
        5..=7 => CasSel::Stale(rng.below(4) as u8),
        8 => CasSel::CurrentPlus(1),
        9 => CasSel::Literal(rng.next()),
        10 => CasSel::Literal(u64::MAX),
        _ => CasSel::Literal(rng.range(1, 40)),
    }
}

pub fn gen_u64_edge(rng: &mut Rng) -> u64 {
    match rng.below(10) {
        0 => 0,
        1 => 1,
        2 => u64::MAX,
        3 => u64::MAX - 1,
        4 => 1 << 63,
        5 => (1 << 63) - 1,
        6 => rng.next(),
        _ => rng.range(0, 1000),
    }
}

/// Picks the opcode (loud or quiet variant).
fn pick(rng: &mut Rng, p: &Profile, loud: u8, quiet: u8) -> u8 {
    if rng.chance(p.quiet_pct as u64, 100) {
        quiet
    } else {
        loud
    }
}

pub struct Gen<'a> {
    pub rng: &'a mut Rng,
    pub p: Profile,
    pub keys: Vec<Vec<u8>>,
    opaque_ctr: u32,
    opaque_hi: u32,
    /// recent TTLs, to aim clock advances at expiry boundaries
    ttl_hints: Vec<u64>,
}

impl<'a> Gen<'a> {
    pub fn new(rng: &'a mut Rng, p: Profile) -> Gen<'a> {
        let keys = gen_keys(rng, p.keys);
        let hi = (rng.next() as u32) & 0xffff_0000;
        Gen {
            rng,
            p,
            keys,
            opaque_ctr: 0,
            opaque_hi: hi,
            ttl_hints: Vec::new(),
        }
    }

    pub fn opaque(&mut self) -> u32 {
        self.opaque_ctr = self.opaque_ctr.wrapping_add(1);
        self.opaque_hi | (self.opaque_ctr & 0xffff)
    }

    pub fn key(&mut self) -> Vec<u8> {
        self.keys[self.rng.usize(self.keys.len())].clone()
    }

    pub fn ttl(&mut self) -> u32 {
        if self.rng.chance(self.p.ttl_pct as u64, 100) && !self.p.ttls.is_empty() {
            let t = self.p.ttls[self.rng.usize(self.p.ttls.len())];
            self.ttl_hints.push(t as u64);
            if self.ttl_hints.len() > 4 {
                self.ttl_hints.remove(0);
            }
            t
        } else {
            0
        }
    }

    pub fn advance_secs(&mut self) -> u64 {
        let cap = self.p.advance_cap;
        self.advance_secs_uncapped().min(cap)
    }

    fn advance_secs_uncapped(&mut self) -> u64 {
        let r = self.rng.below(10);
        match r {
            0..=2 => self.rng.range(0, 3),
            3..=6 if !self.ttl_hints.is_empty() => {
                let t = self.ttl_hints[self.rng.usize(self.ttl_hints.len())];
                match self.rng.below(4) {
                    0 => t.saturating_sub(1),
                    1 => t,
                    2 => t + 1,
                    _ => t / 2,
                }
            }
            7 => self.rng.range(1, self.p.far_advance.max(1)),
            _ => 1,
        }
    }

    /// One command (no delivery events).
    pub fn command(&mut self) -> SymReq {
        let w = self.p.w.as_vec();
        let which = self.rng.weighted(&w);
        let key = self.key();
        let p = self.p.clone();
        let mut r = match which {
            0 => {
                let opc = *self.rng.pick(&[op::GET, op::GET, op::GETK, op::GETQ, op::GETKQ]);
                let opc = if p.quiet_pct == 0 && (opc == op::GETQ || opc == op::GETKQ) { op::GET } else { opc };
                SymReq::get(opc, &key)
            }
            1 => {
                let v = gen_value(self.rng, &p);
                let t = self.ttl();
                let cas = gen_cas(self.rng, &p);
                SymReq::store(pick(self.rng, &p, op::SET, op::SETQ), &key, v, self.rng.next() as u32, t, cas)
            }
            2 => {
                let v = gen_value(self.rng, &p);
                let t = self.ttl();
                // an add may carry a CAS too (it is stored as the item's first CAS token)
                let cas = gen_cas(self.rng, &p);
                SymReq::store(pick(self.rng, &p, op::ADD, op::ADDQ), &key, v, self.rng.next() as u32, t, cas)
            }
            3 => {
                let v = gen_value(self.rng, &p);
                let t = self.ttl();
                let cas = gen_cas(self.rng, &p);
                SymReq::store(pick(self.rng, &p, op::REPLACE, op::REPLACEQ), &key, v, self.rng.next() as u32, t, cas)
            }
            4 => {
                let v = gen_value(self.rng, &p);
                let cas = gen_cas(self.rng, &p);
                SymReq::concat(pick(self.rng, &p, op::APPEND, op::APPENDQ), &key, v, cas)
            }
            5 => {
                let v = gen_value(self.rng, &p);
                let cas = gen_cas(self.rng, &p);
                SymReq::concat(pick(self.rng, &p, op::PREPEND, op::PREPENDQ), &key, v, cas)
            }
            6 | 7 => {
                let (l, q) = if which == 6 { (op::INCR, op::INCRQ) } else { (op::DECR, op::DECRQ) };
                let delta = gen_u64_edge(self.rng);
                let initial = gen_u64_edge(self.rng);
                let exp = match self.rng.below(6) {
                    0 => 0xffff_ffff,
                    1 => self.ttl(),
                    _ => 0,
                };
                let cas = gen_cas(self.rng, &p);
                SymReq::counter(pick(self.rng, &p, l, q), &key, delta, initial, exp, cas)
            }
            8 => {
                let cas = gen_cas(self.rng, &p);
                SymReq::delete(pick(self.rng, &p, op::DELETE, op::DELETEQ), &key, cas)
            }
            9 => SymReq::flush(pick(self.rng, &p, op::FLUSH, op::FLUSHQ), if self.rng.chance(1, 2) { None } else { Some(0) }),
            10 => {
                let d = match self.rng.below(6) {
                    0 => 1,
                    1 => 2,
                    2 => self.rng.range(1, 10) as u32,
                    3 => self.rng.range(10, 1000) as u32,
                    4 => self.rng.range(1000, 1_000_000) as u32,
                    // the extremes of the field (a delay is a number of seconds like any other)
                    _ => *self.rng.pick(&[u32::MAX, u32::MAX - 1, 0x8000_0000, 0x7fff_ffff]),
                };
                self.ttl_hints.push(d as u64);
                SymReq::flush(pick(self.rng, &p, op::FLUSH, op::FLUSHQ), Some(d))
            }
            _ => SymReq::bare(*self.rng.pick(&[op::NOOP, op::VERSION, op::STAT])),
        };
        r.opaque = self.opaque();
        // the reserved (vbucket) field of a request is not part of any rule: it must not matter
        if self.rng.chance(1, 12) {
            r.vbucket = 1 + (self.rng.next() % 0xffff) as u16;
        }
        r
    }

    pub fn final_dump(&mut self, sc: &mut Scenario, c: usize) {
        let keys = self.keys.clone();
        for k in keys {
            let mut r = SymReq::get(op::GETK, &k);
            r.opaque = self.opaque();
            sc.push_req(c, r);
        }
    }

    /// A whole scenario: commands on random connections, clock advances in
    /// between, each command delivered in one piece (segmentation is added by
    /// the ring-N transformers).
    pub fn scenario(&mut self, knobs: Knobs) -> Scenario {
        let mut sc = Scenario {
            knobs,
            events: Vec::new(),
        };
        for c in 0..self.p.conns {
            sc.events.push(Ev::Connect { c });
        }
        let mut i = 0;
        while i < self.p.cmds {
            if self.rng.chance(self.p.advance_pct as u64, 100) {
                let secs = self.advance_secs();
                let ms = if self.p.whole_seconds {
                    secs * 1000
                } else {
                    secs * 1000 + *self.rng.pick(&[0u64, 0, 1, 250, 500, 999])
                };
                sc.events.push(Ev::Advance { ms });
            }
            let c = self.rng.usize(self.p.conns);
            let batch = if self.rng.chance(self.p.batch_pct as u64, 100) {
                self.rng.range(2, 6) as usize
            } else {
                1
            };
            for _ in 0..batch {
                let r = self.command();
                let kind = crate::wire::op_info(r.opcode).kind;
                let key = r.key.clone();
                sc.events.push(Ev::Send { c, req: r });
                i += 1;
                let mutating = !matches!(
                    kind,
                    crate::wire::Kind::Get
                        | crate::wire::Kind::Noop
                        | crate::wire::Kind::Version
                        | crate::wire::Kind::Stat
                        | crate::wire::Kind::Flush
                        | crate::wire::Kind::Quit
                );
                if mutating && self.rng.chance(self.p.verify_pct as u64, 100) {
                    let mut g = SymReq::get(op::GET, &key);
                    g.opaque = self.opaque();
                    sc.events.push(Ev::Send { c, req: g });
                }
            }
            sc.events.push(Ev::Deliver { c, n: u32::MAX });
        }
        if self.p.final_dump {
            self.final_dump(&mut sc, 0);
        }
        sc
    }
}
