//! C19 (quiet variants differ only in what is sent back) and C20 (same
//! behaviour under every runtime configuration): paired / differential runs.
use crate::check::{Case, Check, Outcome, Tier};
use crate::checks::hmodel::knobs_for;
use crate::driver::{Driver, Exec, Frame};
use crate::gen::{Gen, Profile};
use crate::model::{LossMode, Violation};
use crate::ringh::RingH;
use crate::ringn::RingN;
use crate::rng::{Fp, Rng};
use crate::scenario::{Ev, Knobs, Policy, Scenario, SymReq};
use crate::segment::{to_ring_n, SegStyle};
use crate::wire::{self, op, op_info, status, Kind, Response};
use serde_json::{json, Value};

fn toggle(opcode: u8) -> Option<u8> {
    use op::*;
    Some(match opcode {
        GET => GETQ,
        GETQ => GET,
        GETK => GETKQ,
        GETKQ => GETK,
        SET => SETQ,
        SETQ => SET,
        ADD => ADDQ,
        ADDQ => ADD,
        REPLACE => REPLACEQ,
        REPLACEQ => REPLACE,
        DELETE => DELETEQ,
        DELETEQ => DELETE,
        INCR => INCRQ,
        INCRQ => INCR,
        DECR => DECRQ,
        DECRQ => DECR,
        APPEND => APPENDQ,
        APPENDQ => APPEND,
        PREPEND => PREPENDQ,
        PREPENDQ => PREPEND,
        FLUSH => FLUSHQ,
        FLUSHQ => FLUSH,
        _ => return None,
    })
}

/// Run a scenario and return, per Send event (in order), the frame with its response.
fn run_frames(sc: &Scenario, ring_n: bool, keep_log: bool) -> (Vec<Frame>, crate::driver::Stats, u64, Vec<String>, Vec<Violation>) {
    let mut ring_h;
    let mut ring_nn;
    let exec: &mut dyn Exec = if ring_n {
        ring_nn = RingN::new(&sc.knobs);
        &mut ring_nn
    } else {
        ring_h = RingH::new(&sc.knobs);
        &mut ring_h
    };
    let mut d = Driver::new(exec, sc.knobs.item_limit, if ring_n { sc.knobs.timeout_secs } else { 0 }, LossMode::Strict).with_slack(1);
    d.keep_log = keep_log;
    d.run(sc);
    let mut frames: Vec<Frame> = Vec::new();
    for c in &d.conns {
        frames.extend(c.frames.iter().cloned());
    }
    frames.sort_by_key(|f| f.sym_index);
    let v = std::mem::take(&mut d.violations);
    (frames, d.stats.clone(), d.fingerprint(), std::mem::take(&mut d.log), v)
}

fn same_payload(a: &Response, b: &Response) -> bool {
    a.status == b.status && a.extras_len == b.extras_len && a.key_len == b.key_len && a.body == b.body && a.cas == b.cas && a.opaque == b.opaque && a.data_type == b.data_type
}

// =====================================================================  C19

pub struct C19;

fn gen_c19(run_seed: u64, tier: Tier) -> (Scenario, Scenario, bool) {
    let mut krng = Rng::sub(run_seed, "knobs");
    let mut knobs = knobs_for(&mut krng, run_seed);
    knobs.item_limit = 65536;
    knobs.timeout_secs = 60;
    knobs.conn_limit = 16;
    let mut prng = Rng::sub(run_seed, "profile");
    let mut p = Profile::base();
    p.keys = prng.range(2, 5) as usize;
    p.cmds = match tier {
        Tier::Quick => prng.range(5, 80) as usize,
        Tier::Thorough => prng.range(5, 400) as usize,
    };
    p.conns = 1;
    p.quiet_pct = *prng.pick(&[0u32, 30, 50]);
    p.cas_pct = *prng.pick(&[10u32, 30]);
    p.ttl_pct = 25;
    p.advance_pct = 15;
    p.numeric_pct = 40;
    p.odd_numeric_pct = 15;
    p.verify_pct = 30;
    p.w.flush_now = 2;
    p.w.flush_delay = 2;
    p.w.bare = 0;
    p.max_value = 40;
    let ring_n = prng.chance(1, 5);
    if ring_n {
        p.advance_cap = 100;
        p.ttls = vec![1, 2, 5, 30];
        p.whole_seconds = true;
        p.cmds = p.cmds.min(60);
        // half of the whole-server pairs: a small item limit and values on both sides of it, so
        // that 'too large' is among the errors a quiet variant has to report like its loud twin
        if prng.chance(1, 2) {
            knobs.item_limit = 1024;
            p.max_value = 3000;
            p.big_value_pct = 15;
        }
    }
    let mut wrng = Rng::sub(run_seed, "workload");
    let mut g = Gen::new(&mut wrng, p);
    let mut a = g.scenario(knobs);
    // common advance schedule after the dump, with further dumps (expiry behaviour)
    let keys = g.keys.clone();
    let mut ctr = 0x00dd_0000u32;
    for adv in [1000u64, 4000, 55_000] {
        a.events.push(Ev::Advance { ms: adv });
        a.events.push(Ev::Connect { c: 1 });
        for k in &keys {
            ctr += 1;
            let mut r = SymReq::get(op::GETK, k);
            r.opaque = ctr;
            a.push_req(if ring_n { 1 } else { 0 }, r);
        }
    }
    // P': a random subset of positions toggled loud <-> quiet
    let mut trng = Rng::sub(run_seed, "toggle");
    let pct = *trng.pick(&[10u64, 30, 60, 100]);
    let n_sends = a.n_requests();
    let dump_from = n_sends - 4 * keys.len(); // the final dumps stay loud
    let mut b = a.clone();
    let mut idx = 0usize;
    for ev in b.events.iter_mut() {
        if let Ev::Send { req, .. } = ev {
            if idx < dump_from && trng.chance(pct, 100) {
                if let Some(t) = toggle(req.opcode) {
                    req.opcode = t;
                }
            }
            idx += 1;
        }
    }
    if ring_n {
        // the same segmentation for both (derived from the same sub-stream)
        let mut s1 = Rng::sub(run_seed, "segmentation");
        let mut s2 = Rng::sub(run_seed, "segmentation");
        let a2 = to_ring_n(&a, &mut s1, SegStyle::Mixed, 0);
        let b2 = to_ring_n(&b, &mut s2, SegStyle::Mixed, 0);
        return (a2, b2, true);
    }
    (a, b, false)
}

fn compare_c19(fa: &[Frame], fb: &[Frame]) -> Vec<Violation> {
    let mut v = Vec::new();
    if fa.len() != fb.len() {
        v.push(Violation::new("C19", "different-request-count", format!("{} vs {} requests resolved", fa.len(), fb.len())));
        return v;
    }
    for (i, (a, b)) in fa.iter().zip(fb.iter()).enumerate() {
        let ia = op_info(a.req.opcode);
        let ib = op_info(b.req.opcode);
        let what = format!("position {} ({:?} key {})", i, ia.kind, wire::hex_short(&a.req.key, 10));
        if a.req.opcode == b.req.opcode {
            let same = match (&a.response, &b.response) {
                (None, None) => true,
                (Some(x), Some(y)) => x == y,
                _ => false,
            };
            if !same {
                v.push(Violation::new(
                    "C19",
                    "effect-differs-after-toggling-earlier-commands",
                    format!("{}: the same request is answered differently in the two runs: {} vs {}", what, a.response.as_ref().map(|r| r.short()).unwrap_or("silent".into()), b.response.as_ref().map(|r| r.short()).unwrap_or("silent".into())),
                ));
                return v;
            }
            continue;
        }
        // toggled: one loud, one quiet
        let (loud, quiet, qop) = if ia.quiet { (&b.response, &a.response, a.req.opcode) } else { (&a.response, &b.response, b.req.opcode) };
        let loud = match loud {
            Some(l) => l,
            None => {
                v.push(Violation::new("C19", "loud-request-silent", format!("{}: the loud variant got no response", what)));
                return v;
            }
        };
        let is_get = ia.kind == Kind::Get;
        if loud.status == status::OK {
            if is_get {
                match quiet {
                    Some(q) => {
                        if !(same_payload(loud, q) && q.opcode == qop) {
                            v.push(Violation::new("C19", "quiet-hit-payload-differs", format!("{}: loud hit {} vs quiet hit {}", what, loud.short(), q.short())));
                            return v;
                        }
                    }
                    None => {
                        v.push(Violation::new("C19", "quiet-hit-silent", format!("{}: loud get hit ({}) but the quiet variant was silent", what, loud.short())));
                        return v;
                    }
                }
            } else if let Some(q) = quiet {
                v.push(Violation::new("C19", "quiet-success-answered", format!("{}: the loud variant succeeded but the quiet variant answered {}", what, q.short())));
                return v;
            }
        } else if is_get && loud.status == status::NOT_FOUND {
            if let Some(q) = quiet {
                v.push(Violation::new("C19", "quiet-miss-answered", format!("{}: quiet get miss answered {}", what, q.short())));
                return v;
            }
        } else {
            match quiet {
                Some(q) => {
                    if !(same_payload(loud, q) && q.opcode == qop) {
                        v.push(Violation::new("C19", "error-response-differs", format!("{}: loud error {} vs quiet error {}", what, loud.short(), q.short())));
                        return v;
                    }
                }
                None => {
                    v.push(Violation::new("C19", "quiet-error-suppressed", format!("{}: the loud variant failed with {} but the quiet variant was silent", what, loud.short())));
                    return v;
                }
            }
        }
    }
    v
}

fn exec_pair(a: Scenario, b: Scenario, ring_n: bool, keep_log: bool) -> Outcome {
    let (fa, sa, fpa, la, va) = run_frames(&a, ring_n, keep_log);
    // P' must send the very same requests apart from the toggled opcodes: CAS
    // tokens that P resolved from what it had observed are carried over literally
    // (a quiet mutation reveals no CAS, so P' could not resolve them itself)
    let mut b = b;
    {
        let mut k = 0usize;
        for ev in b.events.iter_mut() {
            if let Ev::Send { req, .. } = ev {
                if let Some(f) = fa.get(k) {
                    if f.sym_index == k {
                        req.cas = crate::scenario::CasSel::Literal(f.req.cas);
                    }
                }
                k += 1;
            }
        }
    }
    let (fb, sb, fpb, lb, vb) = run_frames(&b, ring_n, keep_log);
    let mut out = Outcome::default();
    out.stats.merge(&sa);
    out.stats.merge(&sb);
    let mut fp = Fp::new();
    fp.u64(fpa);
    fp.u64(fpb);
    out.fp = fp.0;
    let toggled = fa.iter().zip(fb.iter()).filter(|(x, y)| x.req.opcode != y.req.opcode).count();
    out.nontrivial = toggled > 0;
    out.count("toggled_positions", toggled as u64);
    out.count(if ring_n { "ring_N_pairs" } else { "ring_H_pairs" }, 1);
    if keep_log {
        out.log.push("--- program P".into());
        out.log.extend(la);
        out.log.push("--- program P' (toggled)".into());
        out.log.extend(lb);
    }
    for v in va.into_iter().chain(vb.into_iter()) {
        *out.out_of_scope.entry(v.signature()).or_insert(0) += 1;
        out.all.push(v);
    }
    let v = compare_c19(&fa, &fb);
    out.absorb(v, &|v| v.prop == "C19");
    out
}

impl Check for C19 {
    fn id(&self) -> &'static str {
        "C19"
    }
    fn runs(&self, tier: Tier) -> u64 {
        match tier {
            Tier::Quick => 40_000,
            Tier::Thorough => 800_000,
        }
    }
    fn generate(&self, run_seed: u64, _index: u64, tier: Tier) -> Case {
        let (a, b, ring_n) = gen_c19(run_seed, tier);
        Case {
            kind: if ring_n { "N".into() } else { "H".into() },
            data: json!({"scenario": a.to_json(), "scenario2": b.to_json()}),
        }
    }
    fn run_fast(&self, run_seed: u64, _index: u64, tier: Tier) -> Option<Outcome> {
        let (a, b, ring_n) = gen_c19(run_seed, tier);
        Some(exec_pair(a, b, ring_n, false))
    }
    fn execute(&self, case: &Case) -> Outcome {
        let a = Scenario::from_json(&case.data["scenario"]);
        let b = Scenario::from_json(&case.data["scenario2"]);
        let (a, b) = match (a, b) {
            (Some(a), Some(b)) => (a, b),
            _ => {
                eprintln!("harness error: bad C19 case");
                std::process::exit(2);
            }
        };
        exec_pair(a, b, case.kind == "N", case.data.get("log").is_some())
    }
    fn shrink(&self, case: &Case) -> Vec<Case> {
        // drop the same events from both programs (they have the same shape)
        let a = match Scenario::from_json(&case.data["scenario"]) {
            Some(a) => a,
            None => return vec![],
        };
        let b = match Scenario::from_json(&case.data["scenario2"]) {
            Some(b) => b,
            None => return vec![],
        };
        if a.events.len() != b.events.len() {
            return vec![];
        }
        let n = a.events.len();
        let mut out = Vec::new();
        let mut chunk = n / 2;
        while chunk >= 1 && out.len() < 300 {
            let mut start = n.saturating_sub(chunk);
            loop {
                let end = (start + chunk).min(n);
                let mut ea = a.events.clone();
                let mut eb = b.events.clone();
                ea.drain(start..end);
                eb.drain(start..end);
                out.push(Case {
                    kind: case.kind.clone(),
                    data: json!({
                        "scenario": Scenario { knobs: a.knobs.clone(), events: ea }.to_json(),
                        "scenario2": Scenario { knobs: b.knobs.clone(), events: eb }.to_json(),
                    }),
                });
                if start == 0 || out.len() >= 300 {
                    break;
                }
                start = start.saturating_sub(chunk);
            }
            if chunk == 1 {
                break;
            }
            chunk /= 2;
        }
        // un-toggle single positions
        for i in 0..n {
            if let (Ev::Send { req: ra, .. }, Ev::Send { req: rb, .. }) = (&a.events[i], &b.events[i]) {
                if ra.opcode != rb.opcode && out.len() < 500 {
                    let mut eb = b.events.clone();
                    eb[i] = a.events[i].clone();
                    out.push(Case {
                        kind: case.kind.clone(),
                        data: json!({"scenario": a.to_json(), "scenario2": Scenario { knobs: b.knobs.clone(), events: eb }.to_json()}),
                    });
                }
            }
        }
        out
    }
    fn rule(&self) -> String {
        "paired simulated runs from one seed: a command program P (every command kind, CAS, TTLs, clock advances, flushes) and P' with a random subset (10-100 %) of positions switched between the loud and the quiet opcode (set/add/replace/delete/incr/decr/append/prepend/flush/get/getk), each on a fresh identical server (ring H; 1 pair in 5 on ring N with the same segmentation), followed by four dumps of every key under a common clock-advance schedule. Oracle: untoggled positions (including all dumps: values, flags, CAS, expiry) are answered byte-identically; toggled positions: errors identical apart from the opcode, quiet success and quiet miss silent, quiet hit payload = loud hit payload. non-trivial = at least one position toggled; distinct = distinct digests of both event logs".into()
    }
    fn assumptions(&self) -> Vec<String> {
        vec!["metamorphic: no fault dimension of its own; the simulator contributes identical fresh servers, the clock schedule and (ring N) identical segmentation".into()]
    }
    fn components(&self) -> Value {
        json!({"real": ["binary_codec (opcode-to-variant mapping)", "handler (quiet filters)", "store stack", "connection layer (ring N pairs)"], "stub": ["Timer / transport as in rings H and N"]})
    }
    fn sample(&self, case: &Case) -> Value {
        let mut v = case.data["scenario2"].clone();
        if let Some(ev) = v.get_mut("events").and_then(|e| e.as_array_mut()) {
            let n = ev.len();
            ev.truncate(10);
            ev.push(json!({"truncated_total_events": n}));
        }
        json!({"toggled_program_prefix": v})
    }
}

// =====================================================================  C20 (a): configuration differential

pub struct C20;

fn gen_c20(run_seed: u64, tier: Tier) -> (Scenario, Vec<Knobs>) {
    let mut krng = Rng::sub(run_seed, "knobs");
    let mut base = Knobs::default_for(run_seed);
    base.item_limit = 1024 * 1024;
    base.timeout_secs = 60;
    base.conn_limit = 8;
    base.policy = Policy::None;
    base.shards = 4;
    base.stall = Rng::sub(run_seed, "stall").chance(1, 2);
    let mut prng = Rng::sub(run_seed, "profile");
    let mut p = Profile::base();
    p.keys = prng.range(2, 5) as usize;
    p.cmds = match tier {
        Tier::Quick => prng.range(5, 60) as usize,
        Tier::Thorough => prng.range(5, 200) as usize,
    };
    p.conns = 1;
    p.quiet_pct = 20;
    p.cas_pct = 25;
    p.ttl_pct = 25;
    p.ttls = vec![1, 2, 5, 30];
    p.advance_pct = 15;
    p.advance_cap = 60;
    p.whole_seconds = false;
    p.max_value = *prng.pick(&[20usize, 200, 900]);
    p.numeric_pct = 40;
    let mut wrng = Rng::sub(run_seed, "workload");
    let mut g = Gen::new(&mut wrng, p);
    let sc = g.scenario(base.clone());
    let mut srng = Rng::sub(run_seed, "segmentation");
    let sc = to_ring_n(&sc, &mut srng, SegStyle::Mixed, 5);
    // configurations that must not change the behaviour
    let mut variants = Vec::new();
    for _ in 0..3 {
        let mut k = base.clone();
        k.policy = if krng.chance(1, 2) { Policy::Random } else { Policy::None };
        k.memory_limit = *krng.pick(&[1u64 << 62, 1 << 40, 64 * 1024 * 1024 * 1024]);
        k.shards = *krng.pick(&[2usize, 16, 64, 128]);
        k.item_limit = *krng.pick(&[2048u32, 65536, 1024 * 1024, 8 * 1024 * 1024]);
        k.conn_limit = *krng.pick(&[1u32, 2, 1024]);
        k.backlog = *krng.pick(&[1u32, 128, 1024]);
        k.hash_seed = krng.next();
        k.rng_seed = krng.next();
        // whether the timer thread was stalled during an advance must not matter either:
        // expiry follows elapsed seconds
        k.stall = krng.chance(1, 2);
        variants.push(k);
    }
    (sc, variants)
}

impl Check for C20 {
    fn id(&self) -> &'static str {
        "C20"
    }
    fn runs(&self, tier: Tier) -> u64 {
        match tier {
            Tier::Quick => 25_000 + crate::checks::startup::quick_configs(),
            Tier::Thorough => 300_000 + crate::checks::startup::thorough_configs(),
        }
    }
    fn generate(&self, run_seed: u64, index: u64, tier: Tier) -> Case {
        let n_startup = match tier {
            Tier::Quick => crate::checks::startup::quick_configs(),
            Tier::Thorough => crate::checks::startup::thorough_configs(),
        };
        if index < n_startup {
            return crate::checks::startup::generate(run_seed, index, tier);
        }
        let (sc, variants) = gen_c20(run_seed, tier);
        Case {
            kind: "N".into(),
            data: json!({"scenario": sc.to_json(), "variants": variants.iter().map(|k| k.to_json()).collect::<Vec<_>>()}),
        }
    }
    fn execute(&self, case: &Case) -> Outcome {
        if case.kind == "startup" {
            return crate::checks::startup::execute(case);
        }
        let sc = Scenario::from_json(&case.data["scenario"]).unwrap_or_else(|| {
            eprintln!("harness error: bad C20 case");
            std::process::exit(2)
        });
        let variants: Vec<Knobs> = case.data["variants"].as_array().map(|a| a.iter().filter_map(Knobs::from_json).collect()).unwrap_or_default();
        let keep_log = case.data.get("log").is_some();
        let mut out = Outcome::default();
        let (f0, s0, fp0, l0, v0) = run_frames(&sc, true, keep_log);
        out.stats.merge(&s0);
        let mut fp = Fp::new();
        fp.u64(fp0);
        let mut viols = Vec::new();
        for v in v0 {
            if v.prop == "C05" && v.clause == "server-clock-drift" {
                // "in every configuration item expiry follows real elapsed seconds"
                viols.push(Violation::new("C20", "server-clock-does-not-follow-elapsed-seconds", v.detail.clone()));
            }
            *out.out_of_scope.entry(v.signature()).or_insert(0) += 1;
            out.all.push(v);
        }
        if keep_log {
            out.log.push("--- reference configuration".into());
            out.log.extend(l0);
        }
        for (vi, k) in variants.iter().enumerate() {
            let mut s2 = sc.clone();
            s2.knobs = k.clone();
            s2.knobs.timeout_secs = sc.knobs.timeout_secs;
            let (f1, s1, fp1, l1, _v1) = run_frames(&s2, true, keep_log);
            out.stats.merge(&s1);
            fp.u64(fp1);
            out.count("configurations_compared", 1);
            if keep_log {
                out.log.push(format!("--- variant {}: {}", vi, k.to_json()));
                out.log.extend(l1);
            }
            // the program never sends a body above the smallest item limit used here
            let max_body = f0.iter().map(|f| f.req.body_len()).max().unwrap_or(0);
            if max_body > k.item_limit {
                continue;
            }
            if f0.len() != f1.len() {
                viols.push(Violation::new("C20", "behaviour-depends-on-configuration", format!("variant {} ({}): {} vs {} requests resolved", vi, k.to_json(), f0.len(), f1.len())));
                break;
            }
            for (i, (a, b)) in f0.iter().zip(f1.iter()).enumerate() {
                if a.response != b.response {
                    viols.push(Violation::new(
                        "C20",
                        "behaviour-depends-on-configuration",
                        format!("variant {} ({}): request #{} ({:?}) answered {} under the reference configuration and {} under the variant", vi, k.to_json(), i, op_info(a.req.opcode).kind, a.response.as_ref().map(|r| r.short()).unwrap_or("silent".into()), b.response.as_ref().map(|r| r.short()).unwrap_or("silent".into())),
                    ));
                    break;
                }
            }
            if !viols.is_empty() {
                break;
            }
        }
        out.fp = fp.0;
        out.nontrivial = f0.len() > 1;
        out.absorb(viols, &|v| v.prop == "C20");
        out
    }
    fn shrink(&self, case: &Case) -> Vec<Case> {
        if case.kind == "startup" {
            return vec![];
        }
        let mut out = Vec::new();
        // keep only one variant at a time
        if let Some(vs) = case.data["variants"].as_array() {
            if vs.len() > 1 {
                for v in vs {
                    out.push(Case {
                        kind: case.kind.clone(),
                        data: json!({"scenario": case.data["scenario"], "variants": [v]}),
                    });
                }
            }
        }
        for c in crate::minimise::shrink_scenario_case(case) {
            let mut d = c.data.clone();
            d["variants"] = case.data["variants"].clone();
            out.push(Case { kind: c.kind, data: d });
        }
        out
    }
    fn rule(&self) -> String {
        "(a) configuration differential, deterministic (ring N): the same seeded single-connection program with the same segmentation runs on a reference server and on 3 servers that differ only in configuration (eviction policy none / random with an unreached limit, memory limit, item size limit above the largest body sent, connection limit, backlog, DashMap shard count and hash seed, victim RNG seed); every response must be byte-identical. (b) runtime flavour and thread count change only which interleavings of store steps occur; those are sampled by the ring-T checks C03 / C04 / C14 / C16. (c) start-up path (the first runs of every batch, reported as uncontrolled_schedule_runs): cli::parser::parse + runtime_builder::create_memcrs_server are executed for real for combinations of --runtime-type x --threads {1,2,8} x --eviction-policy x --max-item-size x --connection-limit x --port; their listeners bind to the simulated network (hook H3), the simulator chooses which listener gets each connection, but the server runs on the OS threads and tokio runtimes that runtime_builder creates; only schedule-independent observations are made (a synchronous program's responses equal ring N's, at most connection-limit connections get a noop answered, an oversized set is refused with 0x03, optionally one TTL probe on the real clock). non-trivial = more than one request (a) / any start-up run (c); distinct = distinct digests of all event logs".into()
    }
    fn assumptions(&self) -> Vec<String> {
        vec![
            "part (c) runs real OS threads and real tokio runtimes whose scheduling and clock the simulator does not own; expected answers are awaited with a long deadline, expected silence is concluded after a short settle time, so a slow machine can only make it miss a defect, never raise a false alarm".into(),
            "the memcrsd binary over loopback sockets, core pinning and SO_REUSEPORT kernel load balancing are outside the simulator".into(),
        ]
    }
    fn components(&self) -> Value {
        json!({
            "real": ["whole server (ring N) per configuration", "cli::parser::parse, runtime_builder::create_memcrs_server, MemcacheStoreBuilder (part c)", "OS threads + real tokio runtimes (part c, uncontrolled)"],
            "stub": ["TcpStream/TcpListener (simseam::net)"],
            "not_run": ["bin/memcrsd.rs main (logging set-up, process exit)"],
        })
    }
    fn sample(&self, case: &Case) -> Value {
        if case.kind == "startup" {
            return case.data.clone();
        }
        let mut v = case.data["scenario"].clone();
        if let Some(ev) = v.get_mut("events").and_then(|e| e.as_array_mut()) {
            let n = ev.len();
            ev.truncate(8);
            ev.push(json!({"truncated_total_events": n}));
        }
        json!({"scenario_prefix": v, "variants": case.data["variants"]})
    }
}

pub fn checks() -> Vec<Box<dyn Check>> {
    vec![Box::new(C19), Box::new(C20)]
}
