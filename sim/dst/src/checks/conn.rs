//! C17 (connection limit and slot return) and C18 (faults on one connection
//! are contained): ring N with connection-level fault injection.
use crate::check::{Case, Check, Outcome, Tier};
use crate::driver::{Driver, Exec};
use crate::model::{LossMode, Violation};
use crate::ringn::RingN;
use crate::rng::{Fp, Rng};
use crate::scenario::{CasSel, Ev, Knobs, Scenario, SymReq, Val};
use crate::segment::wire_len;
use crate::wire::{self, op, parse_response, status, Request};
use serde_json::{json, Value};

// =====================================================================  C17

pub struct C17;

#[derive(Clone, Debug, PartialEq)]
enum Step17 {
    /// a new client connects
    Open,
    /// client i sends a noop (is it being served?)
    Probe(usize),
    /// client i ends: the string names how
    End(usize, String),
    Advance(u64),
    /// the next accept() fails with this errno (ECONNABORTED 103, EMFILE 24, ENFILE 23, ENOBUFS 105)
    AcceptErr(i32),
}

fn step_json(s: &Step17) -> Value {
    match s {
        Step17::Open => json!({"open": true}),
        Step17::Probe(i) => json!({"probe": i}),
        Step17::End(i, how) => json!({"end": i, "how": how}),
        Step17::Advance(ms) => json!({"advance": ms}),
        Step17::AcceptErr(e) => json!({"accept_error": e}),
    }
}

fn step_from(v: &Value) -> Option<Step17> {
    if v.get("open").is_some() {
        return Some(Step17::Open);
    }
    if let Some(i) = v.get("probe") {
        return Some(Step17::Probe(i.as_u64()? as usize));
    }
    if let Some(i) = v.get("end") {
        return Some(Step17::End(i.as_u64()? as usize, v.get("how")?.as_str()?.to_string()));
    }
    if let Some(e) = v.get("accept_error") {
        return Some(Step17::AcceptErr(e.as_i64()? as i32));
    }
    Some(Step17::Advance(v.get("advance")?.as_u64()?))
}

const END_KINDS: [&str; 19] = [
    "close", "quit", "quitq", "close-mid-header", "close-mid-body", "bad-magic", "oversized-then-close", "idle", "reset", "reset-mid-request", "unknown-opcode", "close-after-work",
    // silence (no close) in every buffering state of the connection
    "idle-mid-header", "idle-mid-body", "idle-after-work", "idle-with-partial-request-behind-a-complete-one",
    // an oversized request whose body is still in flight when the client closes / goes silent, and silence after one
    "close-mid-oversized-body", "idle-mid-oversized-body", "idle-after-oversized",
];

struct Client17 {
    id: usize,
    open: bool,
    /// the client has ended this connection (by any means)
    ended: bool,
    rx: Vec<u8>,
    probes_sent: u32,
    probes_answered: u32,
    opaque: u32,
}

struct World17 {
    ring: RingN,
    clients: Vec<Client17>,
    limit: usize,
    timeout_ms: u64,
    item_limit: u32,
    fp: Fp,
    viols: Vec<Violation>,
    log: Vec<String>,
    keep_log: bool,
    max_waiting: usize,
    waited_then_served: u64,
    ends: std::collections::BTreeMap<String, u64>,
    accept_errors: u64,
    listeners: usize,
    listener_seed: u64,
}

impl World17 {
    fn note(&mut self, s: String) {
        if self.keep_log {
            self.log.push(s);
        }
    }
    fn viol(&mut self, clause: &'static str, d: String) {
        self.viols.push(Violation::new("C17", clause, d));
    }
    fn drain(&mut self, i: usize) {
        let out = self.ring.take_output(i);
        self.fp.bytes(&out);
        self.clients[i].rx.extend_from_slice(&out);
        loop {
            match parse_response(&self.clients[i].rx) {
                Ok(Some((r, used))) => {
                    self.clients[i].rx.drain(..used);
                    if r.opcode == op::NOOP && r.status == status::OK {
                        self.clients[i].probes_answered += 1;
                    }
                }
                _ => break,
            }
        }
    }
    /// connections the server is serving: it has started reading from them and has not dropped them
    fn served(&self) -> Vec<usize> {
        (0..self.clients.len())
            .filter(|&i| {
                self.ring
                    .view(i)
                    .map(|v| v.reads > 0 && !v.srv_dropped)
                    .unwrap_or(false)
            })
            .collect()
    }
    /// connections that exist on the wire but are not (yet) served
    fn waiting(&self) -> Vec<usize> {
        (0..self.clients.len())
            .filter(|&i| self.clients[i].open && self.ring.view(i).map(|v| v.reads == 0 && !v.srv_dropped).unwrap_or(false))
            .collect()
    }
    fn invariants(&mut self, after: &str) {
        let s = self.served();
        let w = self.waiting();
        self.max_waiting = self.max_waiting.max(w.len());
        self.fp.u64(s.len() as u64);
        self.fp.u64(w.len() as u64);
        if s.len() > self.limit {
            self.viol("more-than-limit-served", format!("after {}: {} connections are being served, limit {} (served {:?})", after, s.len(), self.limit, s));
        }
        if !w.is_empty() && s.len() < self.limit {
            self.viol("slot-free-but-connection-waits", format!("after {}: {} connection(s) wait unserved ({:?}) although only {} of {} slots are in use (served {:?})", after, w.len(), w, s.len(), self.limit, s));
        }
    }
    fn send(&mut self, i: usize, bytes: &[u8]) {
        self.ring.deliver(i, bytes);
    }
    fn noop(&mut self, i: usize) -> Vec<u8> {
        let c = &mut self.clients[i];
        c.opaque += 1;
        let mut r = Request::bare(op::NOOP);
        r.opaque = 0x1700_0000 | ((i as u32) << 8) | (c.opaque & 0xff);
        c.probes_sent += 1;
        r.encode()
    }
    fn step(&mut self, st: &Step17) {
        match st {
            Step17::Open => {
                let i = self.clients.len();
                // the simulator decides which of the SO_REUSEPORT listeners gets the connection
                let l = if self.listeners > 1 { (crate::rng::mix(&[self.listener_seed, i as u64]) % self.listeners as u64) as usize } else { 0 };
                let ok = self.ring.connect_to(i, l);
                self.clients.push(Client17 {
                    id: i,
                    open: ok,
                    ended: !ok,
                    rx: Vec::new(),
                    probes_sent: 0,
                    probes_answered: 0,
                    opaque: 0,
                });
                self.note(format!("open c{} ok={}", i, ok));
                self.invariants("open");
            }
            Step17::Probe(i) => {
                let i = *i;
                if i >= self.clients.len() || self.clients[i].ended {
                    return;
                }
                let was_served = self.served().contains(&i);
                let before = self.clients[i].probes_answered;
                let b = self.noop(i);
                self.send(i, &b);
                self.drain(i);
                let answered = self.clients[i].probes_answered > before;
                let now_served = self.served().contains(&i);
                self.note(format!("probe c{} served={} answered={}", i, was_served, answered));
                if was_served && now_served && !answered {
                    self.viol("served-connection-not-answered", format!("connection {} is being served but its noop got no answer", i));
                }
                if !was_served && !now_served && answered {
                    self.viol("unserved-connection-answered", format!("connection {} is not being served but its noop was answered", i));
                }
                self.invariants("probe");
            }
            Step17::End(i, how) => {
                let i = *i;
                if i >= self.clients.len() || self.clients[i].ended {
                    return;
                }
                *self.ends.entry(how.clone()).or_insert(0) += 1;
                let served_before = self.served().contains(&i);
                match how.as_str() {
                    "close" => self.ring.fin(i),
                    "close-after-work" => {
                        let mut r = Request::store(op::SET, format!("k{}", i).as_bytes(), b"v", 0, 0, 0);
                        r.opaque = 7;
                        let b = r.encode();
                        self.send(i, &b);
                        self.ring.fin(i);
                    }
                    "quit" => {
                        let mut r = Request::bare(op::QUIT);
                        r.opaque = 9;
                        let b = r.encode();
                        self.send(i, &b);
                    }
                    "quitq" => {
                        let b = Request::bare(op::QUITQ).encode();
                        self.send(i, &b);
                    }
                    "close-mid-header" => {
                        let b = Request::bare(op::NOOP).encode();
                        self.send(i, &b[..11]);
                        self.ring.fin(i);
                    }
                    "close-mid-body" => {
                        let b = Request::store(op::SET, b"partial", &[7u8; 40], 0, 0, 0).encode();
                        self.send(i, &b[..40]);
                        self.ring.fin(i);
                    }
                    "bad-magic" => {
                        let mut r = Request::bare(op::NOOP);
                        r.magic = 0x13;
                        let b = r.encode();
                        self.send(i, &b);
                    }
                    "unknown-opcode" => {
                        let b = Request::bare(0xee).encode();
                        self.send(i, &b);
                    }
                    "oversized-then-close" => {
                        let big = vec![1u8; self.item_limit as usize + 10];
                        let b = Request::store(op::SET, b"big", &big, 0, 0, 0).encode();
                        self.send(i, &b);
                        self.ring.fin(i);
                    }
                    "close-mid-oversized-body" | "idle-mid-oversized-body" | "idle-after-oversized" => {
                        let big = vec![1u8; self.item_limit as usize + 10 + 50 * (i % 3)];
                        let b = Request::store(op::SET, b"big", &big, 0, 0, 0).encode();
                        // the header alone, header + part of the body, or all but the last byte
                        let cut = match how.as_str() { "idle-after-oversized" => b.len(), _ => [24usize, 24 + 8 + 3 + 5, b.len() - 1][(i / 3) % 3] };
                        self.send(i, &b[..cut]);
                        if how == "close-mid-oversized-body" {
                            self.ring.fin(i);
                        } else {
                            self.ring.advance_ms(2 * self.timeout_ms + 1000);
                        }
                    }
                    "idle" => {
                        // nothing is sent any more; the server's idle timeout has to fire
                        self.ring.advance_ms(2 * self.timeout_ms + 1000);
                    }
                    "idle-mid-header" => {
                        let b = Request::bare(op::NOOP).encode();
                        self.send(i, &b[..11]);
                        self.ring.advance_ms(2 * self.timeout_ms + 1000);
                    }
                    "idle-mid-body" => {
                        let b = Request::store(op::SET, b"partial", &[7u8; 40], 0, 0, 0).encode();
                        self.send(i, &b[..40]);
                        self.ring.advance_ms(2 * self.timeout_ms + 1000);
                    }
                    "idle-after-work" => {
                        let mut r = Request::store(op::SET, format!("k{}", i).as_bytes(), b"v", 0, 0, 0);
                        r.opaque = 7;
                        let b = r.encode();
                        self.send(i, &b);
                        self.ring.advance_ms(2 * self.timeout_ms + 1000);
                    }
                    "idle-with-partial-request-behind-a-complete-one" => {
                        // one write: a complete request and the beginning of the next; then silence
                        let mut r = Request::bare(op::NOOP);
                        r.opaque = 7;
                        let mut b = r.encode();
                        let next = Request::store(op::SET, b"partial", &[7u8; 40], 0, 0, 0).encode();
                        let cut = [1usize, 11, 24, 40][i % 4];
                        b.extend_from_slice(&next[..cut]);
                        self.send(i, &b);
                        self.ring.advance_ms(2 * self.timeout_ms + 1000);
                    }
                    "reset" => self.ring.rst(i),
                    "reset-mid-request" => {
                        let b = Request::store(op::SET, b"partial", &[7u8; 40], 0, 0, 0).encode();
                        self.send(i, &b[..30]);
                        self.ring.rst(i);
                    }
                    _ => self.ring.fin(i),
                }
                self.drain(i);
                self.clients[i].ended = true;
                let view = self.ring.view(i).unwrap_or_default();
                self.note(format!("end c{} by {} (was served: {}) -> server dropped: {}", i, how, served_before, view.srv_dropped));
                // a served connection that ended in any of these ways must have been let go
                if served_before && !view.srv_dropped {
                    // quit: the server shuts down its side and drops right away; everything else likewise at quiescence
                    self.viol("ended-connection-still-held", format!("connection {} ended by '{}' but the server still holds it (slot not returned)", i, how));
                }
                // the client side is gone too (it stops reading)
                if !view.srv_dropped && !how.starts_with("idle") {
                    // a waiting connection that the client closed stays in the accept path until a slot frees; nothing to do
                }
                self.clients[i].open = !view.srv_dropped;
                self.invariants(how);
            }
            Step17::AcceptErr(e) => {
                self.ring.accept_error(*e);
                self.accept_errors += 1;
                self.note(format!("accept error {}", e));
                self.invariants("accept error");
            }
            Step17::Advance(ms) => {
                self.ring.advance_ms(*ms);
                for i in 0..self.clients.len() {
                    self.drain(i);
                    if let Some(v) = self.ring.view(i) {
                        if v.srv_dropped {
                            self.clients[i].open = false;
                            // an idle timeout ended it from the server side
                            if *ms >= self.timeout_ms {
                                self.clients[i].ended = true;
                            }
                        }
                    }
                }
                self.invariants("advance");
            }
        }
        for p in self.ring.take_panics() {
            self.viols.push(Violation::new("C10", "panic", format!("panic inside the server: {}", p)));
        }
    }

    /// After the last fault: exactly `limit` fresh connections are served, one more is not
    /// until a slot is freed, then it is.
    fn final_liveness(&mut self) {
        // let every remaining connection time out; connections that were still
        // waiting are picked up one after the other and then time out in turn
        let rounds = self.clients.len() + 2;
        for _ in 0..rounds {
            self.ring.advance_ms(self.timeout_ms + 1000);
            if self.served().is_empty() && self.waiting().is_empty() {
                break;
            }
        }
        self.ring.advance_ms(self.timeout_ms + 1000);
        for i in 0..self.clients.len() {
            self.drain(i);
            self.clients[i].ended = true;
            self.clients[i].open = false;
        }
        let s = self.served();
        if !s.is_empty() {
            self.viol("connection-outlives-idle-timeout", format!("after twice the idle timeout {} connection(s) are still held: {:?}", s.len(), s));
        }
        let base = self.clients.len();
        for k in 0..self.limit + 1 {
            self.step(&Step17::Open);
            let _ = k;
        }
        for k in 0..self.limit {
            let i = base + k;
            let before = self.clients[i].probes_answered;
            let b = self.noop(i);
            self.send(i, &b);
            self.drain(i);
            if self.clients[i].probes_answered == before {
                self.viol("fresh-connection-not-served", format!("after the history the server does not serve fresh connection #{} of {} (slots lost)", k + 1, self.limit));
                return;
            }
        }
        let extra = base + self.limit;
        let before = self.clients[extra].probes_answered;
        let b = self.noop(extra);
        self.send(extra, &b);
        self.drain(extra);
        if self.clients[extra].probes_answered > before {
            self.viol("more-than-limit-served", format!("after the history the server serves {} fresh connections at once, limit {}", self.limit + 1, self.limit));
            return;
        }
        // free one slot: the waiting one must be picked up (its buffered noop answered)
        self.ring.fin(base);
        self.drain(base);
        self.clients[base].ended = true;
        self.drain(extra);
        if self.clients[extra].probes_answered == before {
            self.viol("waiting-connection-not-picked-up", "a connection that waited for a slot was not served after a slot had been freed".to_string());
        } else {
            self.waited_then_served += 1;
        }
        self.invariants("final");
    }
}

fn gen_c17(run_seed: u64, tier: Tier) -> (Knobs, Vec<Step17>) {
    let mut rng = Rng::sub(run_seed, "c17");
    let mut knobs = Knobs::default_for(run_seed);
    knobs.conn_limit = rng.range(1, 4) as u32;
    knobs.timeout_secs = rng.range(1, 10) as u32;
    knobs.item_limit = 1024;
    knobs.backlog = *rng.pick(&[1024u32, 16, 64]);
    knobs.shards = 4;
    let limit = knobs.conn_limit as usize;
    let lifecycles = match tier {
        Tier::Quick => rng.range(3 * limit as u64, 6 * limit as u64),
        Tier::Thorough => rng.range(3 * limit as u64, 10 * limit as u64),
    } as usize;
    let mut steps = Vec::new();
    let mut opened = 0usize;
    let mut live: Vec<usize> = Vec::new();
    let burst = rng.chance(1, 3);
    while opened < lifecycles || !live.is_empty() {
        let can_open = opened < lifecycles && live.len() < limit + 4;
        let choice = rng.below(10);
        if can_open && (live.is_empty() || choice < if burst { 6 } else { 4 }) {
            steps.push(Step17::Open);
            live.push(opened);
            opened += 1;
        } else if !live.is_empty() && choice < 7 {
            let i = live[rng.usize(live.len())];
            steps.push(Step17::Probe(i));
        } else if !live.is_empty() {
            let k = rng.usize(live.len());
            let i = live.remove(k);
            let how = END_KINDS[rng.usize(END_KINDS.len())];
            steps.push(Step17::End(i, how.to_string()));
            if how.starts_with("idle") {
                // everybody else timed out as well
                live.clear();
            }
        } else {
            steps.push(Step17::Advance(rng.range(1, 900)));
        }
        if rng.chance(1, 12) {
            let ms = rng.range(1, 700);
            steps.push(Step17::Advance(ms));
        }
        if rng.chance(1, 25) {
            steps.push(Step17::AcceptErr(*rng.pick(&[103i32, 24, 23, 105])));
        }
    }
    (knobs, steps)
}

impl Check for C17 {
    fn id(&self) -> &'static str {
        "C17"
    }
    fn level(&self) -> &'static str {
        "exploration"
    }
    fn runs(&self, tier: Tier) -> u64 {
        match tier {
            Tier::Quick => 600_000,
            Tier::Thorough => 8_000_000,
        }
    }
    fn generate(&self, run_seed: u64, _index: u64, tier: Tier) -> Case {
        let (knobs, steps) = gen_c17(run_seed, tier);
        // one run in three has 2-3 accept loops sharing the semaphore (current-thread mode's shape)
        let listeners = *Rng::sub(run_seed, "listeners").pick(&[1u64, 1, 1, 1, 2, 3]);
        Case {
            kind: "C17".into(),
            data: json!({"knobs": knobs.to_json(), "listeners": listeners, "steps": steps.iter().map(step_json).collect::<Vec<_>>()}),
        }
    }
    fn execute(&self, case: &Case) -> Outcome {
        let knobs = Knobs::from_json(&case.data["knobs"]).unwrap_or_else(|| {
            eprintln!("harness error: bad C17 case");
            std::process::exit(2)
        });
        let steps: Vec<Step17> = case.data["steps"].as_array().map(|a| a.iter().filter_map(step_from).collect()).unwrap_or_default();
        let listeners = case.data.get("listeners").and_then(|v| v.as_u64()).unwrap_or(1) as usize;
        let mut w = World17 {
            ring: RingN::with_listeners(&knobs, listeners),
            clients: Vec::new(),
            limit: knobs.conn_limit as usize,
            timeout_ms: knobs.timeout_secs as u64 * 1000,
            item_limit: knobs.item_limit,
            fp: Fp::new(),
            viols: Vec::new(),
            log: Vec::new(),
            keep_log: case.data.get("log").is_some(),
            max_waiting: 0,
            waited_then_served: 0,
            ends: Default::default(),
            accept_errors: 0,
            listeners,
            listener_seed: knobs.hash_seed,
        };
        for s in &steps {
            w.step(s);
            if !w.viols.is_empty() {
                break;
            }
        }
        if w.viols.is_empty() {
            w.final_liveness();
        }
        let mut out = Outcome::default();
        out.fp = w.fp.0;
        out.nontrivial = w.max_waiting > 0;
        out.stats.requests = w.clients.iter().map(|c| c.probes_sent as u64).sum();
        out.stats.responses = w.clients.iter().map(|c| c.probes_answered as u64).sum();
        out.count("connections", w.clients.len() as u64);
        out.count("runs_with_connection_waiting_for_slot", (w.max_waiting > 0) as u64);
        out.count("waiting_connection_picked_up", w.waited_then_served);
        out.count("accept_errors_injected", w.accept_errors);
        out.count("runs_with_several_listeners", (listeners > 1) as u64);
        for (k, v) in &w.ends {
            out.count(&format!("end:{}", k), *v);
        }
        out.log = std::mem::take(&mut w.log);
        let viols = std::mem::take(&mut w.viols);
        out.absorb(viols, &|v| v.prop == "C17");
        out
    }
    fn shrink(&self, case: &Case) -> Vec<Case> {
        let steps = case.data["steps"].as_array().cloned().unwrap_or_default();
        let mut out = Vec::new();
        let n = steps.len();
        let mut chunk = n / 2;
        while chunk >= 1 {
            let mut start = n.saturating_sub(chunk);
            loop {
                let mut s = steps.clone();
                let end = (start + chunk).min(s.len());
                s.drain(start..end);
                // indices of clients shift when an Open is removed: renumber
                out.push(Case {
                    kind: "C17".into(),
                    data: json!({"knobs": case.data["knobs"], "listeners": case.data.get("listeners").cloned().unwrap_or(json!(1)), "steps": renumber(&steps, start, end)}),
                });
                if start == 0 {
                    break;
                }
                start = start.saturating_sub(chunk);
            }
            if chunk == 1 || out.len() > 300 {
                break;
            }
            chunk /= 2;
        }
        out
    }
    fn rule(&self) -> String {
        "seeded histories of 3..10 x limit connection lifecycles on the whole server (ring N) for limits 1-4 and idle timeouts 1-10 s; arrivals overlap so that the limit is exceeded; each lifecycle ends by client close, close after work, quit, quitq, close mid-header, close mid-body, invalid magic, unknown opcode, oversized item then close, close or silence inside an oversized body, silence after one, idle timeout (in every buffering state), reset, or reset mid-request; noop probes in between. After every event (at quiescence): connections being served (server has started reading, has not dropped) <= limit; if any connection waits, exactly limit are served; a served connection answers its noop, an unserved one does not. After the last fault: everything times out, then exactly limit fresh connections are served, one more is not until a slot is freed, after which it is. non-trivial = at some point a connection waited for a slot; distinct = distinct fingerprints of (responses, served / waiting counts after every event)".into()
    }
    fn assumptions(&self) -> Vec<String> {
        vec![
            "'being served' is observed at the transport seam: the server task has polled a read on the connection and has not dropped the stream".into(),
            "the exact instant of an idle-timeout close is never asserted, only that a silent connection is gone after twice the configured timeout".into(),
        ]
    }
    fn components(&self) -> Value {
        json!({
            "real": ["memc_tcp accept loop + semaphore (acquire/forget, add_permits in Drop)", "client_handler (all exit paths)", "binary_connection", "tokio current_thread runtime, timeout, semaphore on virtual time"],
            "stub": ["TcpStream/TcpListener (simseam::net)"],
        })
    }
    fn sample(&self, case: &Case) -> Value {
        let mut v = case.data.clone();
        if let Some(ev) = v.get_mut("steps").and_then(|e| e.as_array_mut()) {
            let n = ev.len();
            ev.truncate(16);
            ev.push(json!({"truncated_total_steps": n}));
        }
        v
    }
}

/// Remove steps[start..end] and renumber client indices (clients are numbered by Open order).
fn renumber(steps: &[Value], start: usize, end: usize) -> Vec<Value> {
    let mut map: Vec<Option<usize>> = Vec::new();
    let mut next = 0usize;
    let mut out = Vec::new();
    for (k, s) in steps.iter().enumerate() {
        let removed = k >= start && k < end;
        if s.get("open").is_some() {
            if removed {
                map.push(None);
            } else {
                map.push(Some(next));
                next += 1;
            }
            if !removed {
                out.push(s.clone());
            }
            continue;
        }
        if removed {
            continue;
        }
        let mut s2 = s.clone();
        let idx_field = if s.get("probe").is_some() { "probe" } else if s.get("end").is_some() { "end" } else { "" };
        if !idx_field.is_empty() {
            let i = s[idx_field].as_u64().unwrap_or(0) as usize;
            match map.get(i).copied().flatten() {
                Some(j) => s2[idx_field] = json!(j),
                None => continue,
            }
        }
        out.push(s2);
    }
    out
}

// =====================================================================  C18

pub struct C18;

const FAULTS: [&str; 6] = ["fin", "half-close", "rst", "rst-write-blocked", "corrupt-header", "truncate-silence"];

#[derive(Clone, Debug)]
struct Stream18 {
    knobs: Knobs,
    reqs: Vec<SymReq>,
    /// key -> expected final value if all of the first n frames executed: tracked at evaluation
    counter_key: Vec<u8>,
}

fn gen_stream18(run_seed: u64, tier: Tier) -> Stream18 {
    let mut rng = Rng::sub(run_seed, "c18");
    let mut knobs = Knobs::default_for(run_seed);
    knobs.conn_limit = 8;
    knobs.timeout_secs = *rng.pick(&[2u32, 5, 30]);
    knobs.item_limit = 4096;
    knobs.shards = 4;
    let max = match tier {
        Tier::Quick => 150,
        Tier::Thorough => 600,
    };
    let counter_key = b"cnt".to_vec();
    let mut reqs = Vec::new();
    let mut total = 0;
    let mut i = 0u32;
    loop {
        i += 1;
        let mut r = match rng.below(5) {
            0 | 1 | 2 => SymReq::counter(if rng.chance(1, 3) { op::INCRQ } else { op::INCR }, &counter_key, 1, 1, 0, CasSel::Zero),
            3 => SymReq::store(if rng.chance(1, 3) { op::SETQ } else { op::SET }, format!("k{}", i).as_bytes(), Val::Bytes(format!("v{}", i).into_bytes()), i, 0, CasSel::Zero),
            _ => SymReq::concat(op::APPEND, b"log", Val::Bytes(vec![b'a' + (i % 26) as u8]), CasSel::Zero),
        };
        r.opaque = 0x1800_0000 | i;
        let l = wire_len(&r);
        if total + l > max && !reqs.is_empty() {
            break;
        }
        total += l;
        reqs.push(r);
        if reqs.len() >= 12 {
            break;
        }
    }
    Stream18 { knobs, reqs, counter_key }
}

fn stream18_json(s: &Stream18) -> Value {
    json!({"knobs": s.knobs.to_json(), "reqs": s.reqs.iter().map(|r| r.to_json()).collect::<Vec<_>>()})
}

fn stream18_from(v: &Value) -> Option<Stream18> {
    let knobs = Knobs::from_json(v.get("knobs")?)?;
    let mut reqs = Vec::new();
    for r in v.get("reqs")?.as_array()? {
        reqs.push(SymReq::from_json(r)?);
    }
    Some(Stream18 {
        knobs,
        reqs,
        counter_key: b"cnt".to_vec(),
    })
}

/// what the store must contain after exactly the first `m` requests were executed
fn expected_after(s: &Stream18, m: usize) -> (Option<u64>, Vec<(Vec<u8>, Vec<u8>)>, Vec<u8>) {
    let mut cnt: Option<u64> = None;
    let mut sets = Vec::new();
    let mut log: Option<Vec<u8>> = Some(b"L".to_vec()); // "log" is pre-created by the observer
    for r in s.reqs.iter().take(m) {
        match crate::wire::op_info(r.opcode).kind {
            crate::wire::Kind::Incr => {
                cnt = Some(match cnt {
                    None => r.initial,
                    Some(c) => c + r.delta,
                })
            }
            crate::wire::Kind::Set => sets.push((r.key.clone(), r.val.bytes())),
            crate::wire::Kind::Append => {
                if let Some(l) = log.as_mut() {
                    l.extend_from_slice(&r.val.bytes());
                }
            }
            _ => {}
        }
    }
    (cnt, sets, log.unwrap_or_default())
}

struct Obs18 {
    cnt: Option<u64>,
    present: Vec<(Vec<u8>, Vec<u8>)>,
    log: Vec<u8>,
}

/// One experiment: deliver the first x bytes of the stream, inject the fault, observe.
fn run_one18(s: &Stream18, x: usize, fault: &str, segs: &[usize], keep_log: bool) -> (Vec<Violation>, crate::driver::Stats, u64, Vec<String>) {
    let mut ring = RingN::new(&s.knobs);
    let mut viols = Vec::new();
    let mut d = Driver::new(&mut ring, s.knobs.item_limit, s.knobs.timeout_secs, LossMode::Strict).with_slack(1);
    d.keep_log = keep_log;
    let total: usize = s.reqs.iter().map(wire_len).sum();
    let x = x.min(total);
    // observer first (connection 1): creates "log", reads the baseline
    d.step(&Ev::Connect { c: 1 });
    let mut r = SymReq::store(op::SET, b"log", Val::Bytes(b"L".to_vec()), 0, 0, CasSel::Zero);
    r.opaque = 0x0b5e_0001;
    d.step(&Ev::Send { c: 1, req: r });
    d.step(&Ev::Deliver { c: 1, n: u32::MAX });
    // faulty connection 0
    d.step(&Ev::Connect { c: 0 });
    if fault == "rst-write-blocked" {
        // the client does not read: the server blocks writing an answer while
        // further requests are already in its buffer
        d.step(&Ev::Window { c: 0, n: 30 });
    }
    // frame boundaries
    let mut ends = Vec::new();
    let mut off = 0;
    for r in &s.reqs {
        off += wire_len(r);
        ends.push(off);
    }
    let corrupt_frame = if fault == "corrupt-header" {
        // the frame whose header contains offset x (or the next one)
        let mut k = 0;
        let mut start = 0;
        for (i, e) in ends.iter().enumerate() {
            if x < *e {
                k = i;
                break;
            }
            start = *e;
            k = i + 1;
        }
        let _ = start;
        Some(k.min(s.reqs.len().saturating_sub(1)))
    } else {
        None
    };
    for (i, r) in s.reqs.iter().enumerate() {
        let mut r = r.clone();
        if Some(i) == corrupt_frame {
            // a corrupted header byte that cannot be mistaken for another valid header
            match x % 3 {
                0 => r.magic = 0x42,
                1 => r.data_type = 0x7f,
                _ => r.opcode = 0xf3,
            }
        }
        d.step(&Ev::Send { c: 0, req: r });
    }
    let deliver_upto = if fault == "corrupt-header" { total } else { x };
    let mut prev = 0;
    for &c in segs {
        if c > prev && c < deliver_upto {
            d.step(&Ev::Deliver { c: 0, n: (c - prev) as u32 });
            prev = c;
        }
    }
    if deliver_upto > prev {
        d.step(&Ev::Deliver { c: 0, n: (deliver_upto - prev) as u32 });
    }
    // how many requests were completely sent before the fault
    let complete = match corrupt_frame {
        Some(k) => k,
        None => ends.iter().filter(|e| **e <= x).count(),
    };
    match fault {
        "fin" | "half-close" => d.step(&Ev::Fin { c: 0 }),
        "rst" | "rst-write-blocked" => d.step(&Ev::Rst { c: 0 }),
        "truncate-silence" => d.step(&Ev::Advance { ms: 2 * s.knobs.timeout_secs as u64 * 1000 + 1000 }),
        _ => {}
    }
    // the faulty connection must be gone now (unless the stream ended cleanly and nothing was wrong)
    let st0 = d.exec.conn_state(0);
    let must_be_closed = match fault {
        "corrupt-header" => true,
        "fin" | "half-close" | "rst" | "rst-write-blocked" | "truncate-silence" => true,
        _ => false,
    };
    if must_be_closed && !st0.server_closed {
        viols.push(Violation::new("C18", "faulty-connection-still-open", format!("fault '{}' at offset {}: the server still holds the faulty connection", fault, x)));
    }
    // observer reads everything through its own connection (reconnects if its idle timeout fired)
    let obs_conn = if fault == "truncate-silence" { 2 } else { 1 };
    if obs_conn == 2 {
        d.step(&Ev::Connect { c: 2 });
    }
    let mut keys: Vec<Vec<u8>> = vec![s.counter_key.clone(), b"log".to_vec()];
    for r in &s.reqs {
        if crate::wire::op_info(r.opcode).kind == crate::wire::Kind::Set {
            keys.push(r.key.clone());
        }
    }
    let first_resp = d.conns.get(obs_conn).map(|c| c.responses.len()).unwrap_or(0);
    for (i, k) in keys.iter().enumerate() {
        let mut r = SymReq::get(op::GETK, k);
        r.opaque = 0x0b5e_1000 | i as u32;
        d.step(&Ev::Send { c: obs_conn, req: r });
    }
    d.step(&Ev::Deliver { c: obs_conn, n: u32::MAX });
    d.finish();
    let resps: Vec<crate::wire::Response> = d.conns.get(obs_conn).map(|c| c.responses[first_resp.min(c.responses.len())..].to_vec()).unwrap_or_default();
    if resps.len() != keys.len() {
        viols.push(Violation::new("C18", "server-stopped-serving", format!("fault '{}' at offset {}: the observer sent {} gets and received {} answers", fault, x, keys.len(), resps.len())));
    } else {
        let mut obs = Obs18 { cnt: None, present: Vec::new(), log: Vec::new() };
        for (k, r) in keys.iter().zip(resps.iter()) {
            if r.status == status::OK {
                if *k == s.counter_key {
                    obs.cnt = std::str::from_utf8(r.value()).ok().and_then(|t| t.parse().ok());
                } else if k == b"log" {
                    obs.log = r.value().to_vec();
                } else {
                    obs.present.push((k.clone(), r.value().to_vec()));
                }
            }
        }
        // exactly the completely sent requests were executed, once each and in order;
        // after an abortive reset: a prefix of them
        let exact = !fault.starts_with("rst");
        let candidates: Vec<usize> = if exact { vec![complete] } else { (0..=complete).collect() };
        let ok = candidates.iter().any(|&m| {
            let (cnt, sets, log) = expected_after(s, m);
            cnt == obs.cnt && sets == obs.present && log == obs.log
        });
        if !ok {
            let (cnt, sets, log) = expected_after(s, complete);
            viols.push(Violation::new(
                "C18",
                if exact { "completed-requests-not-executed-exactly-once" } else { "effects-are-not-a-prefix" },
                format!(
                    "fault '{}' at offset {} of {} ({} requests completely sent): observer sees counter {:?}, {} keys, log {:?}; expected counter {:?}, {} keys, log {:?}{}",
                    fault,
                    x,
                    total,
                    complete,
                    obs.cnt,
                    obs.present.len(),
                    String::from_utf8_lossy(&obs.log),
                    cnt,
                    sets.len(),
                    String::from_utf8_lossy(&log),
                    if exact { "" } else { " (or any prefix)" }
                ),
            ));
        }
    }
    // everything the shared driver saw on the observer's connection is C18's business too
    let dv = std::mem::take(&mut d.violations);
    for v in dv {
        let on_observer = v.detail.starts_with(&format!("c{}:", obs_conn)) || v.detail.starts_with("c1:");
        if v.prop == "C10" || (on_observer && matches!(v.prop, "C11" | "C12")) {
            viols.push(Violation::new("C18", "observer-affected", format!("fault '{}' at offset {}: {} [{}]", fault, x, v.detail, v.signature())));
        } else if v.prop == "C12" && matches!(v.clause, "unsolicited-response" | "answered-after-quit") {
            viols.push(Violation::new("C18", "incomplete-request-executed", format!("fault '{}' at offset {}: {}", fault, x, v.detail)));
        }
    }
    let stats = d.stats.clone();
    let fp = d.fingerprint();
    let log = std::mem::take(&mut d.log);
    (viols, stats, fp, log)
}

impl Check for C18 {
    fn id(&self) -> &'static str {
        "C18"
    }
    fn level(&self) -> &'static str {
        "fault_enumeration"
    }
    fn runs(&self, tier: Tier) -> u64 {
        match tier {
            Tier::Quick => 3500,
            Tier::Thorough => 20_000,
        }
    }
    fn generate(&self, run_seed: u64, _index: u64, tier: Tier) -> Case {
        let s = gen_stream18(run_seed, tier);
        Case {
            kind: "C18".into(),
            data: json!({"mode": "sweep", "seed": run_seed, "stream": stream18_json(&s)}),
        }
    }
    fn execute(&self, case: &Case) -> Outcome {
        let s = stream18_from(&case.data["stream"]).unwrap_or_else(|| {
            eprintln!("harness error: bad C18 case");
            std::process::exit(2)
        });
        let keep_log = case.data.get("log").is_some();
        let mut out = Outcome::default();
        let total: usize = s.reqs.iter().map(wire_len).sum();
        let mut fp = Fp::new();
        if case.data["mode"].as_str() == Some("single") {
            let x = case.data["x"].as_u64().unwrap_or(0) as usize;
            let fault = case.data["fault"].as_str().unwrap_or("fin").to_string();
            let segs: Vec<usize> = case.data["segs"].as_array().map(|a| a.iter().filter_map(|v| v.as_u64()).map(|v| v as usize).collect()).unwrap_or_default();
            let (v, st, f, log) = run_one18(&s, x, &fault, &segs, keep_log);
            out.stats.merge(&st);
            out.fp = f;
            out.nontrivial = true;
            out.log = log;
            out.absorb(v, &|v| v.prop == "C18");
            return out;
        }
        let seed = case.data["seed"].as_u64().unwrap_or(0);
        let mut rng = Rng::sub(seed, "segs");
        'sweep: for x in 0..=total {
            for fault in FAULTS.iter() {
                let k = rng.below(3) as usize;
                let mut segs: Vec<usize> = (0..k).map(|_| rng.range(1, (x.max(2) - 1) as u64) as usize).collect();
                segs.sort();
                segs.dedup();
                let (v, st, f, _) = run_one18(&s, x, fault, &segs, false);
                out.stats.merge(&st);
                fp.u64(f);
                out.count("cut_x_fault_experiments", 1);
                out.count(&format!("fault:{}", fault), 1);
                if !v.is_empty() {
                    // remember which experiment failed (for shrink)
                    out.counters.insert("failed_x".into(), x as u64);
                    out.counters.insert("failed_fault".into(), FAULTS.iter().position(|f| f == fault).unwrap() as u64);
                    out.log.push(format!("segs={:?}", segs));
                    out.absorb(v, &|v| v.prop == "C18");
                    break 'sweep;
                }
            }
        }
        out.fp = fp.0;
        out.nontrivial = s.reqs.len() > 1;
        out
    }
    fn shrink(&self, case: &Case) -> Vec<Case> {
        let s = match stream18_from(&case.data["stream"]) {
            Some(s) => s,
            None => return vec![],
        };
        if case.data["mode"].as_str() != Some("single") {
            let out = self.execute(case);
            if let (Some(x), Some(f)) = (out.counters.get("failed_x"), out.counters.get("failed_fault")) {
                return vec![Case {
                    kind: "C18".into(),
                    data: json!({"mode": "single", "x": x, "fault": FAULTS[*f as usize], "segs": [], "stream": stream18_json(&s)}),
                }];
            }
            return vec![];
        }
        // drop requests from the end / the front, adjusting the offset
        let x = case.data["x"].as_u64().unwrap_or(0) as usize;
        let mut cands = Vec::new();
        if s.reqs.len() > 1 {
            let mut s2 = s.clone();
            let l = wire_len(s2.reqs.last().unwrap());
            s2.reqs.pop();
            let total2: usize = s2.reqs.iter().map(wire_len).sum();
            let _ = l;
            cands.push(Case {
                kind: "C18".into(),
                data: json!({"mode": "single", "x": x.min(total2), "fault": case.data["fault"], "segs": [], "stream": stream18_json(&s2)}),
            });
            let mut s3 = s.clone();
            let l0 = wire_len(&s3.reqs[0]);
            s3.reqs.remove(0);
            if x >= l0 {
                cands.push(Case {
                    kind: "C18".into(),
                    data: json!({"mode": "single", "x": x - l0, "fault": case.data["fault"], "segs": [], "stream": stream18_json(&s3)}),
                });
            }
        }
        cands
    }
    fn rule(&self) -> String {
        "fault enumeration: for every seeded pipelined stream (counter increments, stores on own keys, appends to a shared log; loud and quiet; <= 150 bytes quick, <= 600 thorough) EVERY cut offset 0..=length x EVERY fault kind (orderly close, half-close, abortive reset, abortive reset while the server is blocked writing with further requests buffered, corrupted header byte (magic / data type / opcode outside the table), truncation followed by silence up to the idle timeout) is run on a fresh whole server (ring N) with an observer connection; the bytes before the cut are delivered in 1-3 random segments. Oracle: the observer's reads equal the state after exactly the completely sent requests, once each and in order (after a reset: after some prefix of them); the incomplete or invalid request has no effect; the faulty connection is dropped; the observer's responses are well-formed and the server keeps serving. evaluations = streams; each stream's enumeration is complete (counter cut_x_fault_experiments gives the number of experiments); non-trivial = stream of more than one request; distinct = distinct digests over the event logs of all experiments of a stream".into()
    }
    fn assumptions(&self) -> Vec<String> {
        vec![
            "abortive reset = unread inbound data is discarded, later reads fail with ECONNRESET and writes with EPIPE (the stream-level image of a TCP RST)".into(),
            "corruption is limited to header bytes that cannot turn the frame into another valid frame (magic, data type, opcode outside the table)".into(),
        ]
    }
    fn components(&self) -> Value {
        json!({
            "real": ["binary_connection (EOF with residue, read/write errors)", "client_handler (all exit paths)", "memc_tcp accept loop", "codec, handler, store", "tokio runtime / timeout on virtual time"],
            "stub": ["TcpStream/TcpListener (simseam::net) incl. FIN / RST / window"],
        })
    }
    fn sample(&self, case: &Case) -> Value {
        json!({"mode": case.data["mode"], "reqs": case.data["stream"]["reqs"], "x": case.data.get("x"), "fault": case.data.get("fault")})
    }
}

pub fn checks() -> Vec<Box<dyn Check>> {
    vec![Box::new(C17), Box::new(C18)]
}

#[allow(dead_code)]
fn unused(_: Scenario) {}
