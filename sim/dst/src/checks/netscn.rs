//! Ring-N scenario checks driven by the shared driver: C12 (pipelining, quiet
//! and quit rules), C13 (item size limit), C11 (response well-formedness).
use crate::check::{Case, Check, Outcome, Tier};
use crate::checks::c09::gen_any_request;
use crate::checks::hmodel::{execute_h, execute_n, knobs_for};
use crate::gen::{gen_keys, Gen, Profile};
use crate::model::{LossMode, Violation};
use crate::rng::Rng;
use crate::scenario::{CasSel, Ev, Scenario, SymReq, Val};
use crate::segment::{cut_sizes, to_ring_n, wire_len, SegStyle};
use crate::wire::op;
use serde_json::{json, Value};

pub struct ScnCheck {
    pub id: &'static str,
    pub claims: fn(&Violation) -> bool,
    pub gen: fn(u64, Tier) -> (Scenario, &'static str),
    pub quick_runs: u64,
    pub thorough_runs: u64,
    pub rule: &'static str,
}

impl ScnCheck {
    fn exec_sc(&self, sc: &Scenario, kind: &str, keep_log: bool) -> Outcome {
        let (viols, mut out) = if kind == "H" {
            execute_h(sc, LossMode::Strict, 1, keep_log)
        } else {
            execute_n(sc, LossMode::Strict, 1, keep_log)
        };
        out.nontrivial = out.stats.requests > 1;
        out.count(if kind == "N" { "ring_N_runs" } else { "ring_H_runs" }, 1);
        let claims = self.claims;
        match std::env::var("VERIF_CLAIM_SIG") {
            Ok(sig) => out.absorb(viols, &|v| v.signature() == sig),
            Err(_) => out.absorb(viols, &|v| claims(v)),
        }
        out
    }
}

impl Check for ScnCheck {
    fn id(&self) -> &'static str {
        self.id
    }
    fn runs(&self, tier: Tier) -> u64 {
        match tier {
            Tier::Quick => self.quick_runs,
            Tier::Thorough => self.thorough_runs,
        }
    }
    fn generate(&self, run_seed: u64, _index: u64, tier: Tier) -> Case {
        let (sc, ring) = (self.gen)(run_seed, tier);
        Case {
            kind: ring.to_string(),
            data: json!({"scenario": sc.to_json()}),
        }
    }
    fn run_fast(&self, run_seed: u64, _index: u64, tier: Tier) -> Option<Outcome> {
        let (sc, ring) = (self.gen)(run_seed, tier);
        Some(self.exec_sc(&sc, ring, false))
    }
    fn execute(&self, case: &Case) -> Outcome {
        let sc = match Scenario::from_json(&case.data["scenario"]) {
            Some(s) => s,
            None => {
                eprintln!("harness error: bad scenario in case");
                std::process::exit(2);
            }
        };
        self.exec_sc(&sc, if case.kind == "H" { "H" } else { "N" }, case.data.get("log").is_some())
    }
    fn rule(&self) -> String {
        self.rule.to_string()
    }
    fn assumptions(&self) -> Vec<String> {
        vec![
            "simulated transport: reliable ordered byte stream with FIN/RST/back-pressure; every event is followed by a run to quiescence (no server task can make progress), so the absence of a response is decided, not timed out".into(),
            "tokio current_thread runtime with paused clock; the idle timeout and the 1 Hz SystemTimer run on virtual time".into(),
        ]
    }
    fn components(&self) -> Value {
        json!({
            "real": ["memc_tcp accept loop + semaphore", "client_handler", "binary_connection", "binary_codec", "handler", "MemcStore / RandomPolicy / MemoryStore", "SystemTimer (virtual time)", "tokio runtime, timers, semaphore"],
            "stub": ["TcpStream/TcpListener (simseam::net)", "DashMap hasher seed / shard count"],
        })
    }
    fn sample(&self, case: &Case) -> Value {
        let mut v = case.data["scenario"].clone();
        if let Some(ev) = v.get_mut("events").and_then(|e| e.as_array_mut()) {
            let n = ev.len();
            ev.truncate(14);
            ev.push(json!({"truncated_total_events": n}));
        }
        v
    }
}

// ------------------------------------------------------------------ C12

fn gen_c12(run_seed: u64, tier: Tier) -> (Scenario, &'static str) {
    let mut krng = Rng::sub(run_seed, "knobs");
    let mut knobs = knobs_for(&mut krng, run_seed);
    knobs.conn_limit = 8;
    knobs.timeout_secs = *krng.pick(&[5u32, 60]);
    let mut rng = Rng::sub(run_seed, "c12");
    let mut p = Profile::base();
    p.max_value = 24;
    p.big_value_pct = 0;
    p.numeric_pct = 40;
    p.odd_numeric_pct = 10;
    let nkeys = rng.range(2, 4) as usize;
    let keys = gen_keys(&mut rng, nkeys);
    let conns = rng.range(1, 3) as usize;
    let mut sc = Scenario {
        knobs,
        events: Vec::new(),
    };
    for c in 0..conns {
        sc.events.push(Ev::Connect { c });
    }
    let max_cmds = match tier {
        Tier::Quick => 30,
        Tier::Thorough => 60,
    };
    // one run in twelve: a pipeline of several kilobytes sent in few pieces, so that the
    // connection's own 4 KiB read buffer ends at arbitrary offsets inside frames
    // one run in ten: a small item limit and, somewhere in the pipeline, a request above it whose
    // body arrives in several reads with the following requests right behind it
    let with_oversized = rng.chance(1, 10);
    if with_oversized {
        sc.knobs.item_limit = *rng.pick(&[1024u32, 2048, 4096]);
    }
    let oversized_at = if with_oversized { Some(rng.usize(12)) } else { None };
    let long = rng.chance(1, 12);
    let total = if long { rng.range(120, 400) as usize } else { rng.range(1, max_cmds) as usize };
    let quiet_heavy = rng.chance(1, 2) || long;
    let unknown_pct = *rng.pick(&[0u64, 0, 3]);
    let quit_pct = *rng.pick(&[0u64, 3, 10]);
    let mut ctr = 0u32;
    let hi = (rng.next() as u32) & 0xffff_0000;
    let mut quit_done = vec![false; conns];
    let mut i = 0;
    while i < total {
        let c = rng.usize(conns);
        let batch = if long { rng.range(40, 200) as usize } else { rng.range(1, 8) as usize };
        for _ in 0..batch {
            let mut r = if rng.chance(quit_pct, 100) {
                quit_done[c] = true;
                SymReq::bare(*rng.pick(&[op::QUIT, op::QUITQ]))
            } else if rng.chance(unknown_pct, 100) {
                // opcode outside the protocol table: the connection is closed
                let mut r = SymReq::get(*rng.pick(&[0x1bu8, 0x25, 0x40, 0xff]), &keys[0]);
                r.val = Val::Bytes(rng.bytes(3));
                r
            } else {
                let mut r = gen_any_request(&mut rng, &keys, &p, true, 0);
                if quiet_heavy && rng.chance(1, 2) {
                    // prefer the quiet variant where one exists
                    r.opcode = match r.opcode {
                        op::GET => op::GETQ,
                        op::GETK => op::GETKQ,
                        op::SET => op::SETQ,
                        op::ADD => op::ADDQ,
                        op::REPLACE => op::REPLACEQ,
                        op::DELETE => op::DELETEQ,
                        op::INCR => op::INCRQ,
                        op::DECR => op::DECRQ,
                        op::APPEND => op::APPENDQ,
                        op::PREPEND => op::PREPENDQ,
                        op::FLUSH => op::FLUSHQ,
                        o => o,
                    };
                }
                r
            };
            if oversized_at == Some(i) {
                let len = sc.knobs.item_limit + *rng.pick(&[1u32, 100, 5000, 20000, 70000]);
                r = SymReq::store(*rng.pick(&[op::SET, op::SETQ, op::ADD, op::APPEND, op::REPLACE]), &keys[0], Val::Fill { byte: 0x6f, len }, 1, 0, CasSel::Zero);
            }
            ctr += 1;
            r.opaque = hi | ctr;
            sc.events.push(Ev::Send { c, req: r });
            i += 1;
        }
        sc.events.push(Ev::Deliver { c, n: u32::MAX });
    }
    // observer on a fresh connection: the state implied by what was executed
    let obs = conns;
    sc.events.push(Ev::Connect { c: obs });
    for k in &keys {
        ctr += 1;
        let mut r = SymReq::get(op::GETK, k);
        r.opaque = hi | ctr;
        sc.events.push(Ev::Send { c: obs, req: r });
    }
    sc.events.push(Ev::Deliver { c: obs, n: u32::MAX });
    let mut srng = Rng::sub(run_seed, "segmentation");
    let style = *srng.pick(&[SegStyle::OneShot, SegStyle::Mixed, SegStyle::Mixed, SegStyle::RandomCuts]);
    (to_ring_n(&sc, &mut srng, style, 5), "N")
}

fn claims_c12(v: &Violation) -> bool {
    // a response stream the client cannot parse any more means requests went unanswered
    // (and a connection task that panics leaves the loud requests of its pipeline unanswered)
    v.prop == "C12" || (v.prop == "C11" && v.clause == "not-a-response-frame") || (v.prop == "C10" && v.clause.starts_with("panic"))
}

// ------------------------------------------------------------------ C13

fn gen_c13(run_seed: u64, tier: Tier) -> (Scenario, &'static str) {
    let mut krng = Rng::sub(run_seed, "knobs");
    let mut knobs = knobs_for(&mut krng, run_seed);
    knobs.conn_limit = 8;
    knobs.timeout_secs = 60;
    let big = tier == Tier::Thorough && krng.chance(1, 40);
    knobs.item_limit = if big {
        *krng.pick(&[256 * 1024u32, 1024 * 1024, 4 * 1024 * 1024])
    } else {
        *krng.pick(&[1024u32, 1024, 2048, 4096, 5000, 8192, 65536])
    };
    let limit = knobs.item_limit as usize;
    let mut rng = Rng::sub(run_seed, "c13");
    let mut p = Profile::base();
    p.max_value = 24;
    p.big_value_pct = 0;
    let keys = gen_keys(&mut rng, 3);
    let mut sc = Scenario {
        knobs,
        events: vec![Ev::Connect { c: 0 }],
    };
    let mut ctr = 0u32;
    let hi = (rng.next() as u32) & 0xffff_0000;
    let n_before = rng.range(0, 3) as usize;
    let n_after = rng.range(1, 4) as usize;
    let mut reqs: Vec<SymReq> = Vec::new();
    for _ in 0..n_before {
        reqs.push(gen_any_request(&mut rng, &keys, &p, false, 0));
    }
    let big_index = reqs.len();
    // the request around the limit
    let key = keys[rng.usize(keys.len())].clone();
    // "for every opcode": half of the runs take any opcode of the protocol table
    // (loud and quiet forms, quit/quitq, stat, the unimplemented ones), the others a store-heavy mix
    let opcode = if rng.chance(1, 2) {
        let mut o = rng.below(op::MAX as u64) as u8;
        if o == 0x1b {
            o = op::QUITQ;
        }
        o
    } else {
        *rng.pick(&[op::SET, op::SET, op::SETQ, op::ADD, op::REPLACE, op::APPEND, op::PREPENDQ, op::GET, op::GETQ, op::DELETE, op::INCR, op::NOOP, op::FLUSH, op::TOUCH, op::VERSION, op::QUIT, op::QUITQ])
    };
    let info = crate::wire::op_info(opcode);
    let extras = match info.kind {
        crate::wire::Kind::Set | crate::wire::Kind::Add | crate::wire::Kind::Replace => 8usize,
        _ => 0,
    };
    let natural_store = extras == 8 || matches!(info.kind, crate::wire::Kind::Append | crate::wire::Kind::Prepend);
    let overhead = extras + key.len();
    let target_body: usize = match rng.below(8) {
        0 => limit - 1,
        1 => limit,
        2 | 3 => limit + 1,
        4 => 2 * limit,
        5 => limit + rng.range(2, 5000) as usize,
        6 => limit + 4096,
        _ => {
            if tier == Tier::Thorough && !big && rng.chance(1, 4) {
                16 * 1024 * 1024
            } else {
                3 * limit + 7
            }
        }
    };
    let mut r = if natural_store {
        let vlen = target_body.saturating_sub(overhead);
        if extras == 8 {
            SymReq::store(opcode, &key, Val::Fill { byte: 0x80, len: vlen as u32 }, 7, 0, CasSel::Zero)
        } else {
            SymReq::concat(opcode, &key, Val::Fill { byte: 0x80, len: vlen as u32 }, CasSel::Zero)
        }
    } else {
        // any other opcode announcing (and carrying) a body of that size
        let mut r = SymReq::get(opcode, if crate::framing::key_required(info.kind) { &key } else { b"" });
        if target_body > limit {
            let vlen = target_body - r.key.len();
            r.val = Val::Fill { byte: 0x80, len: vlen as u32 };
        }
        r
    };
    // the size limit is tested on the announced body length alone: an oversized frame whose
    // other header fields are out of range as well is still answered 'too large' and skipped
    // (closing it would satisfy C10, but not C13; answering 0x03 satisfies both)
    if target_body > limit && rng.chance(1, 6) {
        if rng.chance(1, 2) {
            r.key_len_override = Some(*rng.pick(&[251u16, 300, 65535]));
        } else {
            r.extras_len_override = Some(*rng.pick(&[21u8, 64, 255]));
        }
    }
    if target_body <= limit && !natural_store {
        r = SymReq::store(op::SET, &key, Val::Fill { byte: 0x81, len: (target_body - 8 - key.len()) as u32 }, 7, 0, CasSel::Zero);
    }
    reqs.push(r);
    // now and then a second oversized request right behind the first, or one request later
    if rng.chance(1, 6) {
        if rng.chance(1, 2) {
            reqs.push(gen_any_request(&mut rng, &keys, &p, false, 0));
        }
        let k2 = keys[rng.usize(keys.len())].clone();
        let extra = rng.range(1, 300) as u32;
        reqs.push(SymReq::store(*rng.pick(&[op::SET, op::SETQ, op::APPEND, op::ADD]), &k2, Val::Fill { byte: 0x82, len: limit as u32 + extra }, 9, 0, CasSel::Zero));
    }
    for _ in 0..n_after {
        reqs.push(gen_any_request(&mut rng, &keys, &p, false, 0));
    }
    // verify afterwards what is stored
    for k in &keys {
        reqs.push(SymReq::get(op::GETK, k));
    }
    let mut offsets = Vec::new();
    let mut off = 0usize;
    for r in reqs.iter_mut() {
        ctr += 1;
        r.opaque = hi | ctr;
        offsets.push(off);
        off += wire_len(r);
    }
    let total = off;
    for r in &reqs {
        sc.events.push(Ev::Send { c: 0, req: r.clone() });
    }
    // how much of the oversized body is readable when its header is parsed
    let big_start = offsets[big_index];
    let big_len = wire_len(&reqs[big_index]);
    let body = big_len - 24;
    let first = match rng.below(12) {
        0 => big_start + 24,
        1 => big_start + 25,
        2 => big_start + 24 + body / 2 - 1,
        3 => big_start + 24 + body / 2,
        4 => big_start + 24 + body / 2 + 1,
        5 => big_start + big_len - 1,
        6 => big_start + big_len,
        7 => total,
        8 => big_start + 24 + rng.range(0, body as u64) as usize,
        9 => big_start + 24 + 4072.min(body),
        10 => big_start + 24 + 4073.min(body),
        _ => (big_start + big_len + rng.range(1, 60) as usize).min(total),
    };
    // deliver everything before the big request in one piece when it precedes `first`
    let mut delivered = 0usize;
    if big_start > 0 && rng.chance(1, 2) {
        sc.events.push(Ev::Deliver { c: 0, n: big_start as u32 });
        delivered = big_start;
    }
    if first > delivered {
        sc.events.push(Ev::Deliver { c: 0, n: (first - delivered) as u32 });
        delivered = first;
    }
    // the rest in a few random pieces
    let rest = total - delivered;
    if rest > 0 {
        let style = *rng.pick(&[SegStyle::OneShot, SegStyle::RandomCuts, SegStyle::RandomCuts]);
        for sz in cut_sizes(&mut rng, rest, style) {
            sc.events.push(Ev::Deliver { c: 0, n: sz as u32 });
        }
    }
    sc.events.push(Ev::Deliver { c: 0, n: u32::MAX });
    (sc, "N")
}

fn claims_c13(v: &Violation) -> bool {
    // in these streams nothing but the size handling can break the pipeline
    v.prop == "C13"
        || matches!(
            (v.prop, v.clause),
            ("C12", "loud-request-unanswered") | ("C12", "response-out-of-order") | ("C12", "unsolicited-response") | ("C12", "unexpected-close") | ("C11", "not-a-response-frame") | ("C10", "panic")
        )
}

// ------------------------------------------------------------------ C11

fn gen_c11(run_seed: u64, tier: Tier) -> (Scenario, &'static str) {
    let mut krng = Rng::sub(run_seed, "knobs");
    let mut knobs = knobs_for(&mut krng, run_seed);
    knobs.conn_limit = 16;
    knobs.timeout_secs = 60;
    knobs.item_limit = *krng.pick(&[1024u32, 4096, 65536]);
    let mut prng = Rng::sub(run_seed, "profile");
    let mut p = Profile::base();
    p.keys = prng.range(2, 5) as usize;
    p.cmds = match tier {
        Tier::Quick => prng.range(10, 80) as usize,
        Tier::Thorough => prng.range(10, 400) as usize,
    };
    p.conns = prng.range(1, 3) as usize;
    p.quiet_pct = 30;
    p.cas_pct = 35;
    p.w.bare = 10;
    p.w.flush_delay = 2;
    p.numeric_pct = 40;
    p.odd_numeric_pct = 30;
    p.max_value = *prng.pick(&[16usize, 64, 600]);
    p.ttl_pct = 20;
    p.advance_pct = 10;
    p.advance_cap = 100;
    p.ttls = vec![1, 2, 5, 60];
    p.batch_pct = 30;
    p.whole_seconds = false;
    // one run in sixteen: frames whose lengths do not fit 16 bits (values of 64 KiB and more)
    if prng.chance(1, 16) {
        knobs.item_limit = 1024 * 1024;
        p.max_value = *prng.pick(&[70_000usize, 140_000, 300_000]);
        p.big_value_pct = 40;
        p.numeric_pct = 10;
        p.cmds = p.cmds.min(24);
    }
    let ring_n = prng.chance(1, 3);
    let mut wrng = Rng::sub(run_seed, "workload");
    let limit = knobs.item_limit;
    let mut g = Gen::new(&mut wrng, p.clone());
    let mut sc = g.scenario(knobs);
    // sprinkle frames whose answers are errors of other kinds: oversized,
    // unimplemented, wrong shape (on a scratch connection)
    let keys = g.keys.clone();
    let scratch = p.conns;
    let mut xr = Rng::sub(run_seed, "extras");
    let n_extra = xr.range(0, 6) as usize;
    let mut extra_events = vec![Ev::Connect { c: scratch }];
    for j in 0..n_extra {
        let mut r = match xr.below(3) {
            0 => SymReq::store(*xr.pick(&[op::SET, op::SETQ, op::ADDQ, op::GETQ, op::NOOP]), &keys[0], Val::Fill { byte: 1, len: limit + xr.range(0, 64) as u32 }, 0, 0, CasSel::Zero),
            1 => gen_any_request(&mut xr, &keys, &p, true, 0),
            _ => {
                let mut r = SymReq::get(*xr.pick(&[op::TOUCH, op::GAT, op::GATQ, op::GATK, op::GATKQ, op::SASL_LIST, op::SASL_AUTH, op::SASL_STEP]), &keys[0]);
                r.raw_extras = Some(vec![0, 0, 0, 9]);
                r
            }
        };
        r.opaque = 0x5c5c_0000 | j as u32;
        extra_events.push(Ev::Send { c: scratch, req: r });
        extra_events.push(Ev::Deliver { c: scratch, n: u32::MAX });
    }
    // insert before the final dump so the dump sees the final state
    let pos = xr.usize(sc.events.len().max(1));
    // keep Send/Deliver pairs intact: insert at an event boundary that is not between a Send and its Deliver
    let mut at = pos;
    while at < sc.events.len() && !matches!(sc.events[at], Ev::Send { .. } | Ev::Advance { .. } | Ev::Connect { .. }) {
        at += 1;
    }
    // do not split a batch: move back to the start of the batch
    while at > 0 && matches!(sc.events[at - 1], Ev::Send { .. }) {
        at -= 1;
    }
    for (k, e) in extra_events.into_iter().enumerate() {
        sc.events.insert(at + k, e);
    }
    if ring_n {
        let mut srng = Rng::sub(run_seed, "segmentation");
        (to_ring_n(&sc, &mut srng, SegStyle::Mixed, 5), "N")
    } else {
        // ring H has no idle timeout and whole-second clock only matters for the model
        (sc, "H")
    }
}

fn claims_c11(v: &Violation) -> bool {
    v.prop == "C11"
}

pub fn checks() -> Vec<Box<dyn Check>> {
    vec![
        Box::new(ScnCheck {
            id: "C12",
            claims: claims_c12,
            gen: gen_c12,
            quick_runs: 400_000,
            thorough_runs: 8_000_000,
            rule: "seeded pipelines of 1-60 commands on 1-3 connections mixing loud and quiet variants of every opcode, unimplemented-but-known opcodes (touch, GAT*, SASL*), opcodes outside the table, quit/quitq at any position, delivered one-shot or in random segments to the whole server on the simulated transport (ring N); after every event the server runs to quiescence and the driver matches responses to requests in order (framing model) and applies them to the reference model; an observer connection reads every key at the end. non-trivial = more than one request; distinct = distinct event-log fingerprints",
        }),
        Box::new(ScnCheck {
            id: "C13",
            claims: claims_c13,
            gen: gen_c13,
            quick_runs: 600_000,
            thorough_runs: 2_500_000,
            rule: "seeded streams [0-3 requests] + one request whose body length is limit-1, limit, limit+1, limit+k, 2x, 3x+7 or 16 MiB for every opcode + [1-4 requests] + a dump of all keys, under item size limits 1 KiB..4 MiB; the simulator chooses exactly how many bytes are readable when the oversized header is parsed (0, 1, half-1, half, half+1, all-1, all, all + following requests, around the 4 KiB initial buffer) and cuts the remainder randomly; oracle: 0x03 for bodies above the limit, never for bodies within it, exactly body_length bytes discarded (the following requests are answered in order and correlated), store unchanged. non-trivial = more than one request; distinct = distinct event-log fingerprints",
        }),
        Box::new(ScnCheck {
            id: "C11",
            claims: claims_c11,
            gen: gen_c11,
            quick_runs: 100_000,
            thorough_runs: 2_000_000,
            rule: "seeded histories maximising opcode x outcome x store-state coverage (loud and quiet variants, every error status the server can produce: not found, key exists, too large, non-numeric, not supported), on ring H and on ring N with random segmentation; every response the simulator receives is re-parsed by the independent response parser and checked against its request (magic, opcode and opaque echo, data type, status table, body = extras+key+value actually present, 4 flag bytes on hits, key only on getk/getkq, 8-byte counter values, message text on errors, stream ends on a frame boundary). non-trivial = more than one request; distinct = distinct event-log fingerprints",
        }),
    ]
}
