//! Ring-T checks: C03 (linearizability of get/set/cas-set/delete), C04
//! (read-modify-write atomicity, with known-finding attribution), C16 (no
//! deadlock / livelock), C14 (eviction bound under concurrency).
use crate::check::{Case, Check, Outcome, Tier};
use crate::gen::gen_keys;
use crate::lin;
use crate::model::Violation;
use crate::ringt::{abort_text, run_program, InitOp, SchedSpec, THistory, TProgram};
use crate::rng::{Fp, Rng};
use crate::scenario::{CasSel, Knobs, Policy, SymReq, Val};
use crate::wire::{self, op, op_info, Kind};
use serde_json::{json, Value};
use std::collections::BTreeSet;
use std::sync::Mutex;

static INTERN: Mutex<BTreeSet<&'static str>> = Mutex::new(BTreeSet::new());

pub fn intern(s: &str) -> &'static str {
    let mut g = INTERN.lock().unwrap();
    if let Some(x) = g.get(s) {
        return x;
    }
    let l: &'static str = Box::leak(s.to_string().into_boxed_str());
    g.insert(l);
    l
}

#[derive(Clone, Copy, PartialEq, Eq)]
pub enum TKind {
    C03,
    C04,
    C16,
    C14,
    /// expiry under concurrency: clients race on a key that is just alive or
    /// just expired (and not yet collected); direct oracle, not linearizability
    C05,
    /// delete (with and without CAS) and immediate flush racing stores
    C08,
    /// CAS-carrying stores and deletes racing each other and plain stores
    C02,
    /// accounting under concurrency: stores of fresh keys, deletes of existing ones
    C15,
}

pub struct TCheck {
    pub kind: TKind,
}

const BUDGET: u32 = 20_000;

fn small_val(rng: &mut Rng, tag: u8) -> Val {
    // every written value unique within a program: tag + random byte
    Val::Bytes(vec![b'v', tag, b'a' + rng.below(26) as u8])
}

fn gen_program(kind: TKind, run_seed: u64, tier: Tier) -> TProgram {
    if kind == TKind::C05 {
        return gen_c05_program(run_seed, tier);
    }
    if kind == TKind::C08 {
        return gen_c08_program(run_seed, tier);
    }
    if kind == TKind::C15 {
        return gen_c15_program(run_seed, tier);
    }
    if kind == TKind::C02 {
        // the C03 programs (get / set / cas-set / delete with and without CAS on one key)
        // under their own seed stream
        return gen_program(TKind::C03, crate::rng::mix(&[run_seed, 0xc02]), tier);
    }
    let mut rng = Rng::sub(run_seed, "tprog");
    let mut knobs = Knobs::default_for(run_seed);
    knobs.shards = *rng.pick(&[2usize, 2, 4, 16]);
    knobs.item_limit = 1024 * 1024;
    let mut keys = gen_keys(&mut rng, 3);
    for k in keys.iter_mut() {
        k.truncate(8);
    }
    keys.dedup();
    while keys.len() < 2 {
        keys.push(vec![b'k', keys.len() as u8]);
    }
    let main = keys[0].clone();
    let other = keys[1].clone();
    match kind {
        TKind::C14 => {
            knobs.policy = Policy::Random;
            knobs.memory_limit = *rng.pick(&[0u64, 40, 60, 100, 150, 300]);
        }
        TKind::C16 => {
            if rng.chance(1, 2) {
                knobs.policy = Policy::Random;
                knobs.memory_limit = *rng.pick(&[0u64, 50, 120, 1 << 40]);
            }
        }
        _ => {
            if rng.chance(1, 3) {
                knobs.policy = Policy::Random;
                knobs.memory_limit = 1 << 62;
            }
        }
    }
    // ---- initial state of the main key
    let mut init = Vec::new();
    let numeric = matches!(kind, TKind::C04 | TKind::C16) && rng.chance(1, 2);
    let init_val = |rng: &mut Rng| -> Val {
        if numeric {
            Val::Bytes(rng.range(0, 50).to_string().into_bytes())
        } else {
            Val::Bytes(vec![b'i', b'0' + rng.below(10) as u8])
        }
    };
    match rng.below(4) {
        0 => {} // absent
        1 | 2 => {
            let v = init_val(&mut rng);
            init.push(InitOp::Req(SymReq::store(op::SET, &main, v, rng.next() as u32, 0, CasSel::Zero)));
            if rng.chance(1, 3) {
                // a second version, so that a stale-but-issued CAS exists
                let v = init_val(&mut rng);
                init.push(InitOp::Req(SymReq::store(op::SET, &main, v, rng.next() as u32, 0, CasSel::Zero)));
            }
        }
        _ => {
            // present but expired (not yet collected)
            let v = init_val(&mut rng);
            init.push(InitOp::Req(SymReq::store(op::SET, &main, v, rng.next() as u32, 2, CasSel::Zero)));
            init.push(InitOp::AdvanceSecs(*rng.pick(&[2u64, 3, 50])));
        }
    }
    if rng.chance(1, 2) {
        init.push(InitOp::Req(SymReq::store(op::SET, &other, Val::Bytes(b"by".to_vec()), 5, 0, CasSel::Zero)));
    }
    // the clock may move while clients are inside the store: an item that is
    // about to expire, and one client step that advances the clock past it
    // (C16 only: C03's quantifier fixes the clock during the concurrent phase - with a moving
    // clock a get that copied a live item and read the clock a tick later answers 'miss'
    // although the key was never absent; noted in DESIGN.md 8.4, not a C03 violation)
    let ticking = matches!(kind, TKind::C16) && rng.chance(1, 4);
    if ticking {
        let v = init_val(&mut rng);
        init.push(InitOp::Req(SymReq::store(op::SET, &main, v, rng.next() as u32, 2, CasSel::Zero)));
        if rng.chance(1, 2) {
            init.push(InitOp::AdvanceSecs(1));
        }
    }
    if kind == TKind::C14 && rng.chance(1, 3) {
        // records that have expired and not been collected when the clients start: whoever
        // touches them first collects them, and the accounting must survive two doing so at once
        for k in keys.iter().take(2) {
            init.push(InitOp::Req(SymReq::store(op::SET, k, Val::Fill { byte: b'e', len: rng.range(40, 120) as u32 }, 0, 2, CasSel::Zero)));
        }
        init.push(InitOp::AdvanceSecs(*rng.pick(&[2u64, 3])));
    }
    if matches!(kind, TKind::C14 | TKind::C16) && rng.chance(1, 2) {
        for (i, k) in keys.iter().enumerate().skip(2) {
            init.push(InitOp::Req(SymReq::store(op::SET, k, Val::Fill { byte: b'x', len: 10 + i as u32 * 7 }, 0, 0, CasSel::Zero)));
        }
    }
    let n_clients = rng.range(2, 3) as usize;
    let mut clients = Vec::new();
    let mut tag = 0u8;
    let mut opaque = 0x7000_0000u32;
    for _t in 0..n_clients {
        let n_ops = match (kind, tier) {
            (TKind::C14, _) => rng.range(1, 3),
            // deeper bound in the thorough tier: up to 3 operations per client
            (_, Tier::Thorough) => *rng.pick(&[1u64, 1, 2, 2, 3]),
            _ => rng.range(1, 2),
        } as usize;
        let mut ops = Vec::new();
        for _ in 0..n_ops {
            tag += 1;
            opaque += 1;
            let key = if rng.chance(1, 6) { other.clone() } else { main.clone() };
            let cas = match rng.below(6) {
                0 | 1 => CasSel::Current,
                2 => CasSel::Stale(0),
                _ => CasSel::Zero,
            };
            let mut r = match kind {
                TKind::C03 => match rng.below(8) {
                    0 | 1 => SymReq::get(op::GET, &key),
                    2 | 3 => SymReq::store(op::SET, &key, small_val(&mut rng, tag), tag as u32, 0, CasSel::Zero),
                    4 | 5 => SymReq::store(op::SET, &key, small_val(&mut rng, tag), tag as u32, 0, if cas == CasSel::Zero { CasSel::Current } else { cas.clone() }),
                    6 => SymReq::delete(op::DELETE, &key, CasSel::Zero),
                    _ => SymReq::delete(op::DELETE, &key, cas.clone()),
                },
                TKind::C04 => match rng.below(14) {
                    0 => SymReq::get(op::GET, &key),
                    1 => SymReq::store(op::SET, &key, small_val(&mut rng, tag), tag as u32, 0, CasSel::Zero),
                    // (a delete may carry the CAS of the item the read-modify-write command is about to replace)
                    2 => SymReq::delete(op::DELETE, &key, if rng.chance(1, 2) { cas.clone() } else { CasSel::Zero }),
                    3 | 4 => SymReq::store(op::ADD, &key, small_val(&mut rng, tag), tag as u32, 0, CasSel::Zero),
                    5 | 6 => SymReq::store(op::REPLACE, &key, small_val(&mut rng, tag), tag as u32, 0, cas.clone()),
                    7 | 8 => SymReq::concat(op::APPEND, &key, small_val(&mut rng, tag), cas.clone()),
                    9 => SymReq::concat(op::PREPEND, &key, small_val(&mut rng, tag), cas.clone()),
                    10 | 11 => SymReq::counter(op::INCR, &key, rng.range(1, 9), 100 + tag as u64, if rng.chance(1, 6) { 0xffff_ffff } else { 0 }, cas.clone()),
                    _ => SymReq::counter(op::DECR, &key, rng.range(1, 9), 100 + tag as u64, 0, cas.clone()),
                },
                TKind::C16 => match rng.below(16) {
                    0 => SymReq::get(op::GET, &key),
                    1 | 2 => SymReq::store(op::SET, &key, Val::Fill { byte: b'a' + tag, len: rng.range(1, 60) as u32 }, 0, 0, cas.clone()),
                    3 => SymReq::delete(op::DELETE, &key, cas.clone()),
                    4 => SymReq::store(op::ADD, &key, small_val(&mut rng, tag), 0, 0, CasSel::Zero),
                    5 => SymReq::store(op::REPLACE, &key, small_val(&mut rng, tag), 0, 0, cas.clone()),
                    6 => SymReq::concat(op::APPEND, &key, small_val(&mut rng, tag), cas.clone()),
                    7 => SymReq::concat(op::PREPEND, &key, small_val(&mut rng, tag), cas.clone()),
                    8 => SymReq::counter(op::INCR, &key, 1, 5, 0, cas.clone()),
                    9 => SymReq::counter(op::DECR, &key, 1, 5, 0, cas.clone()),
                    10 | 11 => SymReq::flush(op::FLUSH, None),
                    12 => SymReq::flush(op::FLUSH, Some(rng.range(1, 5) as u32)),
                    13 => SymReq::store(op::SET, &keys[rng.usize(keys.len())], Val::Fill { byte: b'z', len: rng.range(20, 200) as u32 }, 0, 0, CasSel::Zero),
                    _ => SymReq::get(op::GETK, &keys[rng.usize(keys.len())]),
                },
                TKind::C05 | TKind::C08 | TKind::C02 | TKind::C15 => unreachable!(),
                TKind::C14 => {
                    let k = keys[rng.usize(keys.len())].clone();
                    match rng.below(10) {
                        0 | 1 => SymReq::get(op::GET, &k),
                        2 => SymReq::delete(op::DELETE, &k, CasSel::Zero),
                        3 => SymReq::store(op::ADD, &k, Val::Fill { byte: b'a' + tag, len: rng.range(0, 60) as u32 }, 0, 0, CasSel::Zero),
                        4 => SymReq::counter(op::INCR, &k, 1, 7, 0, CasSel::Zero),
                        _ => SymReq::store(op::SET, &k, Val::Fill { byte: b'a' + tag, len: rng.range(0, 120) as u32 }, 0, 0, CasSel::Zero),
                    }
                }
            };
            r.opaque = opaque;
            ops.push(r);
        }
        if ticking && _t == 0 {
            let mut tick = SymReq::new(crate::ringt::TICK, b"");
            tick.cas = CasSel::Literal(rng.range(1, 3));
            let pos = rng.usize(ops.len() + 1);
            ops.insert(pos, tick);
        }
        clients.push(ops);
    }
    let sseed = Rng::sub(run_seed, "schedule").next();
    let sched = if rng.chance(3, 5) {
        SchedSpec::Random { seed: sseed }
    } else {
        SchedSpec::Pct {
            seed: sseed,
            depth: rng.range(1, 3) as u8,
        }
    };
    let mut settle = Vec::new();
    if kind == TKind::C14 {
        // once everybody has finished, more stores one after the other: the sequential bound
        // (limit + the record just written) must hold again - an accounting error made during
        // the concurrent phase shows only now
        let mut srng = Rng::sub(run_seed, "settle");
        if srng.chance(1, 2) {
            for i in 0..srng.range(1, 2) {
                let k = if srng.chance(1, 3) { keys[srng.usize(keys.len())].clone() } else { vec![b's', b'0' + i as u8] };
                settle.push(SymReq::store(op::SET, &k, Val::Fill { byte: b'S', len: srng.range(0, 120) as u32 }, 0, 0, CasSel::Zero));
            }
        } else {
            // many small records: the counter creeps up to the limit in small steps, so a
            // counter that is too low by one record shows as limit + that record
            let n = (knobs.memory_limit / 30 + 8).min(20);
            for i in 0..n {
                settle.push(SymReq::store(op::SET, &[b's', b'a' + i as u8], Val::Fill { byte: b'S', len: srng.range(0, 8) as u32 }, 0, 0, CasSel::Zero));
            }
        }
    }
    TProgram {
        knobs,
        init,
        clients,
        keys,
        sched,
        settle,
    }
}

/// Marker of the value the initialisation stored under a TTL: bytes no client
/// value contains (text mode), or a number range no client counter reaches.
const C05_MARK: u8 = 0xe0;
const C05_NUM_BASE: u64 = 7_000_100;

fn c05_marked(body: &[u8]) -> bool {
    body.iter().any(|b| *b >= C05_MARK) || body.windows(4).any(|w| w == b"7000")
}

fn gen_c05_program(run_seed: u64, tier: Tier) -> TProgram {
    let mut rng = Rng::sub(run_seed, "tprog-c05");
    let mut knobs = Knobs::default_for(run_seed);
    knobs.shards = *rng.pick(&[2usize, 2, 4, 16]);
    knobs.item_limit = 1024 * 1024;
    if rng.chance(1, 3) {
        knobs.policy = Policy::Random;
        knobs.memory_limit = 1 << 62;
    }
    let mut keys = gen_keys(&mut rng, 2);
    for k in keys.iter_mut() {
        k.truncate(8);
    }
    keys.dedup();
    while keys.len() < 2 {
        keys.push(vec![b'k', keys.len() as u8]);
    }
    let main = keys[0].clone();
    let other = keys[1].clone();
    let numeric = rng.chance(1, 3);
    let v0 = if numeric {
        Val::Bytes((C05_NUM_BASE + rng.below(50)).to_string().into_bytes())
    } else {
        Val::Bytes(vec![0xee, C05_MARK + rng.below(16) as u8])
    };
    let ttl = *rng.pick(&[1u32, 2, 3, 5, 60]);
    let mut init = Vec::new();
    init.push(InitOp::Req(SymReq::store(*rng.pick(&[op::SET, op::ADD]), &main, v0, rng.next() as u32, ttl, CasSel::Zero)));
    if rng.chance(1, 3) {
        // a later mutation inside the lifetime (whether it restarts the TTL is the model's business)
        let a = rng.range(0, ttl as u64 - (ttl > 1) as u64);
        if a > 0 {
            init.push(InitOp::AdvanceSecs(a));
        }
        if numeric {
            init.push(InitOp::Req(SymReq::counter(op::INCR, &main, 1, 5, 0, CasSel::Zero)));
        } else {
            init.push(InitOp::Req(SymReq::concat(*rng.pick(&[op::APPEND, op::PREPEND]), &main, Val::Bytes(vec![0xef]), CasSel::Zero)));
        }
    }
    let t = ttl as u64;
    let adv = *rng.pick(&[t.saturating_sub(1), t, t, t + 1, 2 * t + 1, t + 50]);
    if adv > 0 {
        init.push(InitOp::AdvanceSecs(adv));
    }
    if rng.chance(1, 2) {
        init.push(InitOp::Req(SymReq::store(op::SET, &other, Val::Bytes(b"by".to_vec()), 5, 0, CasSel::Zero)));
    }
    let n_clients = rng.range(2, 3) as usize;
    let mut clients = Vec::new();
    let mut tag = 0u8;
    let mut opaque = 0x7500_0000u32;
    for _t in 0..n_clients {
        let n_ops = match tier {
            Tier::Thorough => *rng.pick(&[1u64, 1, 2, 2, 3]),
            Tier::Quick => rng.range(1, 2),
        } as usize;
        let mut ops = Vec::new();
        for _ in 0..n_ops {
            tag += 1;
            opaque += 1;
            let key = if rng.chance(1, 8) { other.clone() } else { main.clone() };
            let cas = match rng.below(6) {
                0 => CasSel::Current,
                1 => CasSel::Stale(0),
                _ => CasSel::Zero,
            };
            let no_create = if rng.chance(1, 2) { 0xffff_ffffu32 } else { 0 };
            let mut r = match rng.below(20) {
                0..=3 => SymReq::get(op::GET, &key),
                4 => SymReq::get(op::GETK, &key),
                5 | 6 => SymReq::store(op::ADD, &key, small_val(&mut rng, tag), tag as u32, *rng.pick(&[0u32, 0, 7]), CasSel::Zero),
                7 | 8 => SymReq::store(op::REPLACE, &key, small_val(&mut rng, tag), tag as u32, 0, cas.clone()),
                9 | 10 => SymReq::concat(op::APPEND, &key, small_val(&mut rng, tag), cas.clone()),
                11 => SymReq::concat(op::PREPEND, &key, small_val(&mut rng, tag), cas.clone()),
                12 | 13 => SymReq::counter(op::INCR, &key, rng.range(1, 9), 1000 + tag as u64, no_create, cas.clone()),
                14 | 15 => SymReq::counter(op::DECR, &key, rng.range(1, 9), 1000 + tag as u64, no_create, cas.clone()),
                16 => SymReq::store(op::SET, &key, small_val(&mut rng, tag), tag as u32, 0, CasSel::Zero),
                17 => SymReq::store(op::SET, &key, small_val(&mut rng, tag), tag as u32, 0, if cas == CasSel::Zero { CasSel::Current } else { cas.clone() }),
                18 => SymReq::delete(op::DELETE, &key, cas.clone()),
                _ => SymReq::get(op::GET, &key),
            };
            r.opaque = opaque;
            ops.push(r);
        }
        clients.push(ops);
    }
    let sseed = Rng::sub(run_seed, "schedule").next();
    let sched = if rng.chance(3, 5) {
        SchedSpec::Random { seed: sseed }
    } else {
        SchedSpec::Pct {
            seed: sseed,
            depth: rng.range(1, 3) as u8,
        }
    };
    TProgram {
        knobs,
        init,
        clients,
        keys,
        sched,
        settle: Vec::new(),
    }
}

/// C05 under concurrency, with the clock fixed while the clients overlap.
/// (a) nothing returned may be, or be derived from, the value of an item that
///     had expired before the clients started;
/// (b) if no client command can create the key, every command sees it absent;
/// (c) if the item was alive and no client deletes or flushes, every command
///     sees the key present.
fn evaluate_c05(p: &TProgram, h: &THistory, viols: &mut Vec<Violation>) {
    for v in &h.init_violations {
        if v.prop != "C10" {
            viols.push(v.clone());
        }
    }
    let main = &p.keys[0];
    let mut m = h.init_model.clone();
    m.expiry_slack = 0;
    let presence = m.presence(main);
    let on_main = |k: &[u8]| k == &main[..];
    let kinds: Vec<(Kind, &crate::wire::Request)> = h.ops.iter().filter(|o| on_main(&o.req.key)).map(|o| (op_info(o.req.opcode).kind, &o.req)).collect();
    let creating = kinds.iter().any(|(k, r)| match k {
        Kind::Set | Kind::Add => true,
        Kind::Incr | Kind::Decr => r.extras.len() != 20 || r.extras[16..20] != [0xff, 0xff, 0xff, 0xff],
        _ => false,
    });
    let removing = h.ops.iter().any(|o| matches!(op_info(o.req.opcode).kind, Kind::Flush)) || kinds.iter().any(|(k, _)| matches!(k, Kind::Delete));
    let now = m.now;
    let mut observe = |what: String, kind: Kind, req: &crate::wire::Request, resp: &Option<crate::wire::Response>| {
        let r = match resp {
            Some(r) => r,
            None => return,
        };
        let no_create = req.extras.len() == 20 && req.extras[16..20] == [0xff, 0xff, 0xff, 0xff];
        match presence {
            crate::model::Presence::Expired | crate::model::Presence::Absent => {
                let derived = match kind {
                    Kind::Get => r.status == wire::status::OK && c05_marked(r.value()),
                    Kind::Incr | Kind::Decr => r.status == wire::status::OK && r.counter().map(|c| c >= C05_NUM_BASE - 100 && c <= C05_NUM_BASE + 400).unwrap_or(false),
                    _ => false,
                };
                if derived {
                    viols.push(Violation::new("C05", "concurrent-visible-after-expiry", format!("{} at t={} returned {} - the value (or one derived from it) of an item that had expired before the clients started; history: {}", what, now, r.short(), describe_history(h))));
                    return;
                }
                if !creating {
                    let as_present = match kind {
                        Kind::Get => r.status != wire::status::NOT_FOUND,
                        Kind::Replace => r.status != wire::status::NOT_FOUND,
                        Kind::Append | Kind::Prepend => r.status != wire::status::NOT_FOUND && r.status != wire::status::NOT_STORED,
                        Kind::Incr | Kind::Decr => no_create && r.status != wire::status::NOT_FOUND,
                        _ => false,
                    };
                    if as_present {
                        viols.push(Violation::new("C05", "concurrent-treated-as-present-after-expiry", format!("{} at t={} answered {} although the item had expired before the clients started and no client command can create the key; history: {}", what, now, r.short(), describe_history(h))));
                    }
                }
            }
            crate::model::Presence::Present if !removing => {
                let as_absent = match kind {
                    Kind::Get => r.status == wire::status::NOT_FOUND,
                    Kind::Add => r.status == wire::status::OK,
                    Kind::Replace => r.status == wire::status::NOT_FOUND,
                    Kind::Append | Kind::Prepend => r.status == wire::status::NOT_FOUND || r.status == wire::status::NOT_STORED,
                    Kind::Incr | Kind::Decr => no_create && r.status == wire::status::NOT_FOUND,
                    _ => false,
                };
                if as_absent {
                    viols.push(Violation::new("C05", "concurrent-premature-expiry", format!("{} at t={} answered {} although the item is inside its TTL and no client deletes or flushes; history: {}", what, now, r.short(), describe_history(h))));
                }
            }
            _ => {}
        }
    };
    for o in &h.ops {
        if on_main(&o.req.key) {
            observe(format!("T{}.{} {:?}", o.client, o.index, op_info(o.req.opcode).kind), op_info(o.req.opcode).kind, &o.req, &o.resp);
        }
    }
    for (req, resp) in &h.final_reads {
        if on_main(&req.key) {
            observe("final get".to_string(), Kind::Get, req, resp);
        }
    }
}

fn gen_c08_program(run_seed: u64, tier: Tier) -> TProgram {
    let mut rng = Rng::sub(run_seed, "tprog-c08");
    let mut knobs = Knobs::default_for(run_seed);
    knobs.shards = *rng.pick(&[2usize, 2, 4, 16]);
    knobs.item_limit = 1024 * 1024;
    if rng.chance(1, 3) {
        knobs.policy = Policy::Random;
        knobs.memory_limit = 1 << 62;
    }
    let mut keys = gen_keys(&mut rng, 4);
    for k in keys.iter_mut() {
        k.truncate(8);
    }
    keys.sort();
    keys.dedup();
    while keys.len() < 3 {
        keys.push(vec![b'k', keys.len() as u8]);
    }
    let flavour = rng.below(4);
    let flush_flavour = flavour == 0;
    let main = keys[0].clone();
    if flavour == 1 {
        // an item stored before a delayed flush whose deadline has passed when the clients start,
        // and that nobody has touched since: whoever reads it first has to treat it as gone
        let mut init = Vec::new();
        let d = *rng.pick(&[1u32, 2, 3, 5]);
        init.push(InitOp::Req(SymReq::store(op::SET, &main, Val::Bytes(vec![0xee, C05_MARK + rng.below(16) as u8]), rng.next() as u32, *rng.pick(&[0u32, 0, 100]), CasSel::Zero)));
        if rng.chance(1, 2) {
            init.push(InitOp::AdvanceSecs(rng.range(0, 2)));
        }
        init.push(InitOp::Req(SymReq::flush(op::FLUSH, Some(d))));
        init.push(InitOp::AdvanceSecs(d as u64 + *rng.pick(&[0u64, 0, 1, 50])));
        let n_clients = rng.range(2, 3) as usize;
        let mut clients = Vec::new();
        let mut tag = 0u8;
        let mut opaque = 0x7900_0000u32;
        for _t in 0..n_clients {
            let n_ops = match tier {
                Tier::Thorough => *rng.pick(&[1u64, 2, 2, 3]),
                Tier::Quick => rng.range(1, 2),
            } as usize;
            let mut ops = Vec::new();
            for _ in 0..n_ops {
                tag += 1;
                opaque += 1;
                let mut r = match rng.below(12) {
                    0..=4 => SymReq::get(op::GET, &main),
                    5 => SymReq::get(op::GETK, &main),
                    6 => SymReq::store(op::SET, &main, small_val(&mut rng, tag), tag as u32, 0, CasSel::Zero),
                    7 => SymReq::store(op::ADD, &main, small_val(&mut rng, tag), tag as u32, 0, CasSel::Zero),
                    8 => SymReq::store(op::REPLACE, &main, small_val(&mut rng, tag), tag as u32, 0, CasSel::Zero),
                    9 => SymReq::concat(op::APPEND, &main, small_val(&mut rng, tag), CasSel::Zero),
                    10 => SymReq::concat(op::PREPEND, &main, small_val(&mut rng, tag), CasSel::Zero),
                    _ => SymReq::get(op::GET, &keys[1]),
                };
                r.opaque = opaque;
                ops.push(r);
            }
            clients.push(ops);
        }
        let sseed = Rng::sub(run_seed, "schedule").next();
        let sched = if rng.chance(3, 5) { SchedSpec::Random { seed: sseed } } else { SchedSpec::Pct { seed: sseed, depth: rng.range(1, 3) as u8 } };
        return TProgram { knobs, init, clients, keys, sched, settle: Vec::new() };
    }
    let mut init = Vec::new();
    let mut itag = 0u8;
    let mut init_val = |rng: &mut Rng| -> Val {
        itag += 1;
        Val::Bytes(vec![b'i', itag, b'0' + rng.below(10) as u8])
    };
    if flush_flavour {
        for k in keys.iter() {
            if rng.chance(2, 3) {
                let v = init_val(&mut rng);
                init.push(InitOp::Req(SymReq::store(op::SET, k, v, rng.next() as u32, *rng.pick(&[0u32, 0, 100]), CasSel::Zero)));
            }
        }
    } else {
        match rng.below(5) {
            0 => {}
            1 | 2 | 3 => {
                let v = init_val(&mut rng);
                init.push(InitOp::Req(SymReq::store(op::SET, &main, v, rng.next() as u32, 0, CasSel::Zero)));
                if rng.chance(1, 2) {
                    // a second version: a stale-but-issued CAS exists
                    let v = init_val(&mut rng);
                    init.push(InitOp::Req(SymReq::store(op::SET, &main, v, rng.next() as u32, 0, CasSel::Zero)));
                }
            }
            _ => {
                let v = init_val(&mut rng);
                init.push(InitOp::Req(SymReq::store(op::SET, &main, v, rng.next() as u32, 2, CasSel::Zero)));
                init.push(InitOp::AdvanceSecs(*rng.pick(&[2u64, 3, 50])));
            }
        }
        if rng.chance(1, 2) {
            init.push(InitOp::Req(SymReq::store(op::SET, &keys[1], Val::Bytes(b"by".to_vec()), 5, 0, CasSel::Zero)));
        }
    }
    let n_clients = rng.range(2, 3) as usize;
    let mut clients = Vec::new();
    let mut tag = 0u8;
    let mut opaque = 0x7800_0000u32;
    let flusher = rng.usize(n_clients);
    for t in 0..n_clients {
        let n_ops = match tier {
            Tier::Thorough => *rng.pick(&[1u64, 2, 2, 3]),
            Tier::Quick => rng.range(1, 2),
        } as usize;
        let mut ops = Vec::new();
        for j in 0..n_ops {
            tag += 1;
            opaque += 1;
            let mut r = if flush_flavour {
                let k = keys[rng.usize(keys.len())].clone();
                if t == flusher && j == 0 {
                    SymReq::flush(*rng.pick(&[op::FLUSH, op::FLUSH, op::FLUSHQ]), if rng.chance(1, 4) { Some(0) } else { None })
                } else {
                    match rng.below(8) {
                        0..=3 => SymReq::store(op::SET, &k, small_val(&mut rng, tag), tag as u32, 0, CasSel::Zero),
                        4 | 5 => SymReq::get(op::GET, &k),
                        6 => SymReq::flush(op::FLUSH, None),
                        _ => SymReq::get(op::GETK, &k),
                    }
                }
            } else {
                let key = if rng.chance(1, 8) { keys[1].clone() } else { main.clone() };
                match rng.below(15) {
                    0..=2 => SymReq::delete(op::DELETE, &key, CasSel::Zero),
                    3..=5 => SymReq::delete(op::DELETE, &key, CasSel::Current),
                    6 => SymReq::delete(op::DELETE, &key, CasSel::Stale(0)),
                    7..=9 => SymReq::store(op::SET, &key, small_val(&mut rng, tag), tag as u32, 0, CasSel::Zero),
                    10 | 11 => SymReq::store(op::SET, &key, small_val(&mut rng, tag), tag as u32, 0, CasSel::Current),
                    _ => SymReq::get(op::GET, &key),
                }
            };
            r.opaque = opaque;
            ops.push(r);
        }
        clients.push(ops);
    }
    let sseed = Rng::sub(run_seed, "schedule").next();
    let sched = if rng.chance(3, 5) {
        SchedSpec::Random { seed: sseed }
    } else {
        SchedSpec::Pct {
            seed: sseed,
            depth: rng.range(1, 3) as u8,
        }
    };
    TProgram {
        knobs,
        init,
        clients,
        keys,
        sched,
        settle: Vec::new(),
    }
}

fn gen_c15_program(run_seed: u64, tier: Tier) -> TProgram {
    let mut rng = Rng::sub(run_seed, "tprog-c15");
    let mut knobs = Knobs::default_for(run_seed);
    knobs.shards = *rng.pick(&[2usize, 4, 16]);
    knobs.item_limit = 1024 * 1024;
    knobs.policy = Policy::Random;
    knobs.memory_limit = *rng.pick(&[80u64, 120, 200, 400, 1 << 40]);
    let n_init = rng.range(0, 4) as usize;
    let mut keys: Vec<Vec<u8>> = (0..n_init).map(|i| vec![b'k', b'0' + i as u8]).collect();
    if keys.is_empty() {
        keys.push(vec![b'k', b'x']);
    }
    let mut init = Vec::new();
    for k in keys.iter().take(n_init) {
        init.push(InitOp::Req(SymReq::store(op::SET, k, Val::Fill { byte: b'i', len: rng.range(5, 40) as u32 }, 0, 0, CasSel::Zero)));
    }
    let n_clients = rng.range(2, 3) as usize;
    let mut clients = Vec::new();
    let mut tag = 0u8;
    let mut opaque = 0x7f00_0000u32;
    for _t in 0..n_clients {
        let n_ops = match tier {
            Tier::Thorough => *rng.pick(&[1u64, 2, 2, 3]),
            Tier::Quick => rng.range(1, 3),
        } as usize;
        let mut ops = Vec::new();
        for _ in 0..n_ops {
            tag += 1;
            opaque += 1;
            let mut r = match rng.below(8) {
                0..=3 => SymReq::store(op::SET, &[b'n', b'a' + tag], Val::Fill { byte: b'a' + tag, len: *rng.pick(&[5u32, 20, 60, 200]) }, 0, 0, CasSel::Zero),
                // (a delete may also aim at a fresh key that another client is storing right now)
                4 | 5 => SymReq::delete(op::DELETE, &keys[rng.usize(keys.len())], CasSel::Zero),
                6 => SymReq::delete(op::DELETE, &[b'n', b'a' + rng.range(1, 9) as u8], CasSel::Zero),
                _ => SymReq::get(op::GET, &keys[rng.usize(keys.len())]),
            };
            r.opaque = opaque;
            ops.push(r);
        }
        clients.push(ops);
    }
    let sseed = Rng::sub(run_seed, "schedule").next();
    let sched = if rng.chance(3, 5) {
        SchedSpec::Random { seed: sseed }
    } else {
        SchedSpec::Pct {
            seed: sseed,
            depth: rng.range(1, 3) as u8,
        }
    };
    TProgram {
        knobs,
        init,
        clients,
        keys,
        sched,
        settle: Vec::new(),
    }
}

/// C02 under concurrency: (1) within one lifetime of the key (no delete succeeded) every
/// acknowledged mutation carries a CAS no other acknowledged mutation carries, and none
/// carries the CAS the item had before; (2) a history with CAS-carrying commands that no
/// one-at-a-time ordering explains means a CAS comparison and its store (or removal) were
/// not one step: a stale token was accepted, or two holders of the same token both won.
fn evaluate_c02(p: &TProgram, h: &THistory, out: &mut Outcome, viols: &mut Vec<Violation>) {
    let main = &p.keys[0];
    let acked = |o: &&crate::ringt::TOp| o.resp.as_ref().map(|r| r.status == wire::status::OK).unwrap_or(false);
    let deleted = h.ops.iter().any(|o| o.req.key == *main && matches!(op_info(o.req.opcode).kind, Kind::Delete) && o.resp.as_ref().map(|r| r.status != wire::status::NOT_FOUND && r.status != wire::status::EXISTS).unwrap_or(true));
    if !deleted {
        let initially_present = h.init_model.presence(main) == crate::model::Presence::Present;
        let mut seen: Vec<(u64, String, bool)> = Vec::new();
        if let Some(c) = h.init_model.current_cas(main) {
            if h.init_model.presence(main) == crate::model::Presence::Present {
                seen.push((c, "the item before the clients started".to_string(), false));
            }
        }
        for o in h.ops.iter().filter(|o| o.req.key == *main && matches!(op_info(o.req.opcode).kind, Kind::Set)).filter(acked) {
            let c = o.resp.as_ref().map(|r| r.cas).unwrap_or(0);
            if c == 0 {
                viols.push(Violation::new("C02", "zero-cas-acknowledged", format!("T{}.{} acknowledged CAS 0; history: {}", o.client, o.index, describe_history(h))));
            }
            // a CAS-carrying store that created the item answers supplied + 1 instead of a counter value
            // (possible only if the key can have been absent: here nothing deletes, so only if it
            // was absent or expired when the clients started)
            let derived = o.req.cas != 0 && c == o.req.cas.wrapping_add(1) && !initially_present;
            if let Some((_, who, d2)) = seen.iter().find(|(x, _, _)| *x == c) {
                let clause = if derived || *d2 { "cas-reused-in-lifetime-begun-with-client-cas" } else { "concurrent-cas-reused-within-lifetime" };
                viols.push(Violation::new("C02", clause, format!("T{}.{} was acknowledged with CAS {} which {} carries as well (no delete in between): two versions of the item share a token; history: {}", o.client, o.index, c, who, describe_history(h))));
                break;
            }
            seen.push((c, format!("T{}.{}", o.client, o.index), derived));
        }
    }
    let r = lin::check_atomic(h);
    out.count("linearization_orders_tried", r.orders_tried);
    if !r.ok {
        let why = r.why.first().map(|v| format!("[{}] {}", v.signature(), v.detail)).unwrap_or_default();
        let has_cas = h.ops.iter().any(|o| o.req.cas != 0);
        if has_cas {
            viols.push(Violation::new("C02", "concurrent-cas-not-atomic", format!("no one-at-a-time ordering explains a history with CAS-carrying commands: a comparison and its store or removal were not one step; closest attempt fails with {}; history: {}", why, describe_history(h))));
        } else {
            viols.push(Violation::new("C03", "not-linearizable", format!("no one-at-a-time ordering explains the history; closest attempt fails with {}; history: {}", why, describe_history(h))));
        }
    }
}

/// C08 under concurrency.
/// Programs without a flush: the history must be linearizable; if it is not but
/// becomes so when the deletes are left free (any answer, removed or not), the
/// deletes are what is wrong.
/// Programs with (immediate) flushes, real-time order only: a value whose store
/// was acknowledged before a flush was invoked is never returned to a get
/// invoked after that flush returned; a store invoked after every flush has
/// returned, and not followed or overlapped by another mutation of its key, is
/// what the final read returns.
fn evaluate_c08(p: &TProgram, h: &THistory, out: &mut Outcome, viols: &mut Vec<Violation>) {
    // flavour "deadline passed": the oracle of C05's ring-T portion, with the flush deadline in the
    // place of the item's own expiry
    let delayed_flush_in_init = p.init.iter().any(|i| matches!(i, InitOp::Req(r) if matches!(op_info(r.opcode).kind, Kind::Flush) && r.flush_delay.unwrap_or(0) > 0));
    if delayed_flush_in_init {
        let mut tmp = Vec::new();
        evaluate_c05(p, h, &mut tmp);
        for v in tmp {
            let clause = match v.clause {
                "concurrent-visible-after-expiry" => "concurrent-visible-after-flush-deadline",
                "concurrent-treated-as-present-after-expiry" => "concurrent-treated-as-present-after-flush-deadline",
                _ => continue,
            };
            viols.push(Violation::new("C08", clause, v.detail.replace("had expired before the clients started", "was stored before a delayed flush whose deadline had passed before the clients started")));
        }
        return;
    }
    let is_flush = |o: &crate::ringt::TOp| matches!(op_info(o.req.opcode).kind, Kind::Flush);
    if !h.ops.iter().any(|o| is_flush(o)) {
        let r = lin::check_atomic(h);
        out.count("linearization_orders_tried", r.orders_tried);
        if !r.ok {
            let why = r.why.first().map(|v| format!("[{}] {}", v.signature(), v.detail)).unwrap_or_default();
            let has_delete = h.ops.iter().any(|o| matches!(op_info(o.req.opcode).kind, Kind::Delete));
            if has_delete && lin::check_atomic_wild(h, Some(Kind::Delete)).ok {
                viols.push(Violation::new("C08", "concurrent-delete-not-atomic", format!("no one-at-a-time ordering explains the history, but one does as soon as the deletes are left free (any answer, key removed or not): a delete removed an item it should not have, or answered what no ordering allows; closest attempt fails with {}; history: {}", why, describe_history(h))));
            } else {
                viols.push(Violation::new("C03", "not-linearizable", format!("no one-at-a-time ordering explains the history (not explained by the deletes alone); closest attempt fails with {}; history: {}", why, describe_history(h))));
            }
        }
        return;
    }
    // ---- flush flavour
    let flushes: Vec<&crate::ringt::TOp> = h.ops.iter().filter(|o| is_flush(o) && o.completed).collect();
    // writer of every value: (key, value) -> (ret of the acknowledged store; 0 for the initialisation)
    let mut writers: Vec<(Vec<u8>, Vec<u8>, u32)> = Vec::new();
    for i in &p.init {
        if let InitOp::Req(r) = i {
            if matches!(op_info(r.opcode).kind, Kind::Set) {
                if let Val::Bytes(b) = &r.val {
                    writers.push((r.key.clone(), b.clone(), 0));
                }
            }
        }
    }
    for o in &h.ops {
        if matches!(op_info(o.req.opcode).kind, Kind::Set) && o.resp.as_ref().map(|r| r.status == wire::status::OK).unwrap_or(false) {
            writers.push((o.req.key.clone(), o.req.value.clone(), o.ret));
        }
    }
    let mut reads: Vec<(String, &[u8], u32, &crate::wire::Response)> = Vec::new();
    for o in &h.ops {
        if matches!(op_info(o.req.opcode).kind, Kind::Get) {
            if let Some(r) = &o.resp {
                if r.status == wire::status::OK {
                    reads.push((format!("T{}.{} get", o.client, o.index), &o.req.key, o.inv, r));
                }
            }
        }
    }
    for (req, resp) in &h.final_reads {
        if let Some(r) = resp {
            if r.status == wire::status::OK {
                reads.push(("final get".to_string(), &req.key, u32::MAX, r));
            }
        }
    }
    for (what, key, inv, r) in &reads {
        for f in &flushes {
            if *inv <= f.ret {
                continue;
            }
            if let Some((_, _, wret)) = writers.iter().find(|(k, v, _)| k == key && v.as_slice() == r.value()) {
                if *wret < f.inv {
                    viols.push(Violation::new("C08", "concurrent-visible-after-flush", format!("{} of key {} invoked after the flush T{}.{} had returned still got value {} whose store was acknowledged before that flush was invoked; history: {}", what, wire::hex_short(key, 8), f.client, f.index, wire::hex_short(r.value(), 8), describe_history(h))));
                }
            }
        }
    }
    let last_flush_ret = flushes.iter().map(|f| f.ret).max().unwrap_or(0);
    let all_flushes_done = h.ops.iter().filter(|o| is_flush(o)).all(|o| o.completed);
    if all_flushes_done {
        for s in h.ops.iter().filter(|o| matches!(op_info(o.req.opcode).kind, Kind::Set)) {
            let acked = s.resp.as_ref().map(|r| r.status == wire::status::OK).unwrap_or(false);
            if !acked || s.inv <= last_flush_ret {
                continue;
            }
            let undisturbed = h.ops.iter().all(|o| std::ptr::eq(o, s) || o.req.key != s.req.key || matches!(op_info(o.req.opcode).kind, Kind::Get) || o.ret < s.inv);
            if !undisturbed {
                continue;
            }
            let fin = h.final_reads.iter().find(|(req, _)| req.key == s.req.key);
            if let Some((_, resp)) = fin {
                let ok = resp.as_ref().map(|r| r.status == wire::status::OK && r.value() == s.req.value.as_slice()).unwrap_or(false);
                if !ok {
                    viols.push(Violation::new("C08", "concurrent-flush-removed-later-store", format!("the store T{}.{} of key {} was invoked after every flush had returned and nothing touched the key afterwards, but the final read does not return it; history: {}", s.client, s.index, wire::hex_short(&s.req.key, 8), describe_history(h))));
                }
            }
        }
    }
}

fn describe_history(h: &THistory) -> String {
    let mut s = String::new();
    for o in &h.ops {
        let info = op_info(o.req.opcode);
        s.push_str(&format!(
            "T{}.{} {:?}(key={} cas={} val={}) [{}..{}] -> {}; ",
            o.client,
            o.index,
            info.kind,
            wire::hex_short(&o.req.key, 6),
            o.req.cas,
            wire::hex_short(&o.req.value, 6),
            o.inv,
            o.ret,
            match (&o.resp, &o.panic) {
                (_, Some(p)) => format!("PANIC {}", p),
                (Some(r), _) => format!("st={:#x} cas={} body={}", r.status, r.cas, wire::hex_short(&r.body, 12)),
                (None, _) => "silent".to_string(),
            }
        ));
    }
    for (req, resp) in &h.final_reads {
        s.push_str(&format!(
            "final get {} -> {}; ",
            wire::hex_short(&req.key, 6),
            match resp {
                Some(r) => format!("st={:#x} cas={} body={}", r.status, r.cas, wire::hex_short(&r.body, 12)),
                None => "none".into(),
            }
        ));
    }
    s
}

fn record_size(req: &crate::wire::Request) -> u64 {
    // CacheMetaData is 24 bytes (u64 timestamp, u64 cas, u32 flags, u32 ttl)
    match op_info(req.opcode).kind {
        // a counter's text has at most 20 digits
        Kind::Incr | Kind::Decr => 24 + 20,
        _ => 24 + req.value.len() as u64,
    }
}

impl TCheck {
    fn evaluate(&self, p: &TProgram, h: &THistory, out: &mut Outcome) {
        let mut viols: Vec<Violation> = Vec::new();
        // termination (C16's clause; reported by every ring-T check as out of scope otherwise)
        if h.report.timed_out {
            viols.push(Violation::new("C16", "step-never-returns", "a granted step did not reach the next scheduling point within 30 s of wall-clock time".into()));
        }
        if let Some(a) = &h.report.abort {
            let clause = match a {
                simseam::sched::Abort::Deadlock(_) => "deadlock",
                simseam::sched::Abort::Budget => "livelock",
            };
            viols.push(Violation::new("C16", clause, format!("{} after {} steps; history: {}", abort_text(a), h.report.steps, describe_history(h))));
        }
        for o in &h.ops {
            if let Some(pn) = &o.panic {
                viols.push(Violation::new("C10", "panic", format!("panic inside the server: {}", pn)));
            }
        }
        for v in &h.init_violations {
            if v.prop == "C10" {
                // a thread that asks for a shard lock it already holds blocks for ever in the real
                // server: in the sequential phases of a program the lock wrapper reports it as a panic
                if v.detail.contains("self-deadlock") {
                    viols.push(Violation::new("C16", "deadlock", format!("{}; history: {}", v.detail, describe_history(h))));
                } else {
                    viols.push(v.clone());
                }
            }
        }
        let clean = h.report.abort.is_none() && !h.report.timed_out;
        match self.kind {
            TKind::C03 | TKind::C04 if clean => {
                let r = lin::check_atomic(h);
                out.count("linearization_orders_tried", r.orders_tried);
                if !r.ok {
                    let why = r.why.first().map(|v| format!("[{}] {}", v.signature(), v.detail)).unwrap_or_default();
                    if self.kind == TKind::C04 {
                        match lin::attribute_rmw(h) {
                            Some(kinds) => {
                                let clause = intern(&format!("rmw-window:{}", kinds.join("+")));
                                viols.push(Violation::new("C04", clause, format!("history is not linearizable with atomic commands but is explained by the non-atomic get-then-set of {:?}; closest atomic attempt fails with {}; history: {}", kinds, why, describe_history(h))));
                            }
                            None => {
                                viols.push(Violation::new("C04", "not-linearizable", format!("no one-at-a-time ordering explains the history, even when read-modify-write commands are split; closest attempt fails with {}; history: {}", why, describe_history(h))));
                            }
                        }
                    } else {
                        viols.push(Violation::new("C03", "not-linearizable", format!("no one-at-a-time ordering explains the history; closest attempt fails with {}; history: {}", why, describe_history(h))));
                    }
                }
            }
            TKind::C05 if clean => evaluate_c05(p, h, &mut viols),
            TKind::C08 if clean => evaluate_c08(p, h, out, &mut viols),
            TKind::C02 if clean => evaluate_c02(p, h, out, &mut viols),
            TKind::C15 if clean => {
                // none of the recorded drift mechanisms is in these programs (no overwrite, no refused
                // conditional store, no expiry, no flush), and the recorded races only make the counter
                // too LOW: whatever the schedule, the accounted usage never exceeds what is stored
                if let Some(acc) = h.accounted_end {
                    if acc > h.stored_bytes_end {
                        viols.push(Violation::new("C15", "overcount-after-concurrent-stores-and-deletes", format!("after the clients finished the accounted usage is {} but only {} bytes in {} records are stored (fresh-key stores, deletes of existing keys and gets only: nothing here may leave bytes accounted that are not stored); history: {}", acc, h.stored_bytes_end, h.items_end, describe_history(h))));
                    }
                }
            }
            TKind::C14 if clean => {
                // no store is in progress now: the sum is at most the limit plus one
                // record per client that stored (its largest), plus the record the
                // sequential initialisation wrote last
                let limit = p.knobs.memory_limit;
                // stores that overlapped in time with a store of another client were
                // "finishing concurrently": one record each; of the others only the last
                // (a conditional store that was refused wrote nothing)
                let stores: Vec<&crate::ringt::TOp> = h
                    .ops
                    .iter()
                    .filter(|o| matches!(op_info(o.req.opcode).kind, Kind::Set | Kind::Add | Kind::Incr))
                    .filter(|o| o.resp.as_ref().map(|r| r.status == wire::status::OK).unwrap_or(!o.completed))
                    .collect();
                let mut per_client = 0u64;
                let mut last_alone: Option<(u32, u64)> = None;
                for o in &stores {
                    let concurrent = stores.iter().any(|q| q.client != o.client && q.inv <= o.ret && o.inv <= q.ret);
                    if concurrent {
                        per_client += record_size(&o.req);
                    } else if last_alone.map(|(r, _)| o.ret > r).unwrap_or(true) {
                        last_alone = Some((o.ret, record_size(&o.req)));
                    }
                }
                per_client += last_alone.map(|x| x.1).unwrap_or(0);
                let init_last = p
                    .init
                    .iter()
                    .rev()
                    .find_map(|i| match i {
                        InitOp::Req(r) if matches!(op_info(r.opcode).kind, Kind::Set) => Some(24 + r.val.len() as u64),
                        _ => None,
                    })
                    .unwrap_or(0);
                let bound = limit.saturating_add(per_client).saturating_add(init_last);
                // a delete that overlapped a store can be subtracted twice from the usage
                // counter (once by the delete, once by the store's eviction sweep): the
                // counter then under-counts by that record for good
                let largest_record = h
                    .ops
                    .iter()
                    .map(|o| record_size(&o.req))
                    .chain(p.init.iter().filter_map(|i| match i {
                        InitOp::Req(r) => Some(24 + r.val.len() as u64),
                        _ => None,
                    }))
                    .max()
                    .unwrap_or(0);
                let racing_deletes = h
                    .ops
                    .iter()
                    .filter(|o| matches!(op_info(o.req.opcode).kind, Kind::Delete))
                    .filter(|d| stores.iter().any(|q| q.client != d.client && q.inv <= d.ret && d.inv <= q.ret))
                    .count() as u64;
                // both recorded races go through the sweep's empty-store reset: they need a moment at
                // which the store held nothing. If more records are there at the end than the clients
                // stored, a record of the initialisation survived and the store was never empty.
                let client_stores_ok = stores.len() as u64;
                let may_have_been_empty = h.items_end <= client_stores_ok;
                let racing_deletes = if may_have_been_empty { racing_deletes } else { 0 };
                let bound_with_races = bound.saturating_add(racing_deletes * largest_record);
                if h.stored_bytes_end > bound && h.stored_bytes_end <= bound_with_races {
                    viols.push(Violation::new(
                        "C14",
                        "undercount-after-delete-store-race",
                        format!("after all clients finished the store holds {} bytes in {} records, above limit {} + allowance {}; explained by {} delete(s) that overlapped a store (the record is subtracted twice from the usage counter); history: {}", h.stored_bytes_end, h.items_end, limit, per_client + init_last, racing_deletes, describe_history(h)),
                    ));
                } else if h.stored_bytes_end > bound {
                    viols.push(Violation::new(
                        "C14",
                        "stored-bytes-exceed-limit",
                        format!("after all clients finished the store holds {} bytes in {} records; limit {} + one record per store that overlapped another (and the last store) {} + last record of the initialisation {} = {}; history: {}", h.stored_bytes_end, h.items_end, limit, per_client, init_last, bound, describe_history(h)),
                    ));
                }
                // the sequential bound after each settle store: an accounting error made
                // during the concurrent phase shows only here
                // a store whose eviction sweep finds the store empty resets the usage counter by
                // everything accounted before it - including the record of a concurrent store that
                // has been accounted but not yet written: the counter then under-counts by that record
                let racing_store_bytes: u64 = if may_have_been_empty {
                    stores
                        .iter()
                        .filter(|o| stores.iter().any(|q| q.client != o.client && q.inv <= o.ret && o.inv <= q.ret))
                        .map(|o| record_size(&o.req))
                        .sum()
                } else {
                    0
                };
                for (i, (stored, reclen, acked)) in h.settle.iter().enumerate() {
                    if !*acked {
                        continue;
                    }
                    let b = limit.saturating_add(*reclen);
                    if *stored <= b {
                        continue;
                    }
                    let with_deletes = b.saturating_add(racing_deletes * largest_record);
                    if *stored <= with_deletes {
                        viols.push(Violation::new(
                            "C14",
                            "undercount-after-delete-store-race",
                            format!("after the sequential store #{} that followed the concurrent phase the store holds {} bytes, above limit {} + the record just written {}; explained by {} delete(s) that overlapped a store (the record is subtracted twice from the usage counter); history: {}", i, stored, limit, reclen, racing_deletes, describe_history(h)),
                        ));
                    } else if *stored <= with_deletes.saturating_add(racing_store_bytes) {
                        viols.push(Violation::new(
                            "C14",
                            "undercount-after-store-store-race",
                            format!("after the sequential store #{} that followed the concurrent phase the store holds {} bytes, above limit {} + the record just written {}; explained by stores of different clients that overlapped ({} bytes of records): a sweep that found the store empty reset the usage counter and with it the bytes of a store that was accounted but not yet written; history: {}", i, stored, limit, reclen, racing_store_bytes, describe_history(h)),
                        ));
                    } else {
                        viols.push(Violation::new(
                            "C14",
                            "stored-bytes-exceed-limit-after-concurrent-stores",
                            format!("after the sequential store #{} that followed the concurrent phase (no store in progress) the store holds {} bytes; limit {} + the record just written {} = {}: the usage counter under-counts what the concurrent phase left behind (more than overlapping deletes and stores explain); history: {}", i, stored, limit, reclen, b, describe_history(h)),
                        ));
                    }
                    break;
                }
            }
            _ => {}
        }
        let me = match self.kind {
            TKind::C03 => "C03",
            TKind::C04 => "C04",
            TKind::C16 => "C16",
            TKind::C14 => "C14",
            TKind::C05 => "C05",
            TKind::C08 => "C08",
            TKind::C02 => "C02",
            TKind::C15 => "C15",
        };
        if self.kind == TKind::C14 {
            // "eviction always terminates" is part of C14: in its own programs a run that
            // does not terminate is C14's violation
            for v in viols.iter_mut() {
                if v.prop == "C16" {
                    *v = Violation::new("C14", "eviction-does-not-terminate", format!("[{}] {}", v.clause, v.detail));
                }
            }
        }
        match std::env::var("VERIF_CLAIM_SIG") {
            Ok(sig) => out.absorb(viols, &|v| v.signature() == sig),
            Err(_) => out.absorb(viols, &|v| v.prop == me),
        }
    }
}

impl Check for TCheck {
    fn id(&self) -> &'static str {
        match self.kind {
            TKind::C03 => "C03",
            TKind::C04 => "C04",
            TKind::C16 => "C16",
            TKind::C14 => "C14",
            TKind::C05 => "C05",
            TKind::C08 => "C08",
            TKind::C02 => "C02",
            TKind::C15 => "C15",
        }
    }
    fn runs(&self, tier: Tier) -> u64 {
        match tier {
            Tier::Quick => 30_000,
            Tier::Thorough => 600_000,
        }
    }
    fn generate(&self, run_seed: u64, _index: u64, tier: Tier) -> Case {
        let p = gen_program(self.kind, run_seed, tier);
        Case {
            kind: "T".into(),
            data: json!({"program": p.to_json()}),
        }
    }
    fn execute(&self, case: &Case) -> Outcome {
        let p = match TProgram::from_json(&case.data["program"]) {
            Some(p) => p,
            None => {
                eprintln!("harness error: bad ring-T program");
                std::process::exit(2);
            }
        };
        let mut out = Outcome::default();
        let h = run_program(&p, BUDGET);
        // event-log fingerprint: the schedule trace, scheduling events and all responses
        let mut fp = Fp::new();
        for e in &h.report.events {
            fp.u8(e.tid);
            fp.u8(e.kind.code());
            fp.u64(e.obj as u64);
        }
        for o in &h.ops {
            fp.bytes(&o.req.encode());
            if let Some(r) = &o.resp {
                fp.u64(r.status as u64);
                fp.u64(r.cas);
                fp.bytes(&r.body);
            }
            fp.u64(o.inv as u64);
            fp.u64(o.ret as u64);
        }
        fp.u64(h.stored_bytes_end);
        for (st, rl, ok) in &h.settle {
            fp.u64(*st);
            fp.u64(*rl);
            fp.u8(*ok as u8);
        }
        out.fp = fp.0;
        out.nontrivial = h.report.preemptions > 0;
        out.count("scheduling_points", h.report.steps as u64);
        out.count("preemptions", h.report.preemptions as u64);
        out.count("context_switches", h.report.switches as u64);
        out.count("lock_and_atomic_objects", h.report.objects as u64);
        out.stats.requests = h.ops.len() as u64;
        out.stats.responses = h.ops.iter().filter(|o| o.resp.is_some()).count() as u64;
        // preemption signatures: which operation kind was preempted at which kind of point by which other
        let mut last_tid = None;
        for e in &h.report.events {
            if e.preempt {
                if let Some(lt) = last_tid {
                    let victim: usize = lt;
                    let vk = p.clients.get(victim).and_then(|c| c.first()).map(|r| format!("{:?}", op_info(r.opcode).kind)).unwrap_or_default();
                    let ak = p.clients.get(e.tid as usize).and_then(|c| c.first()).map(|r| format!("{:?}", op_info(r.opcode).kind)).unwrap_or_default();
                    out.cells.insert(format!("{}<-{}@{}", vk, ak, e.kind.code() as char));
                }
            }
            last_tid = Some(e.tid as usize);
        }
        if case.data.get("log").is_some() {
            out.log.push(format!("schedule: {}", h.report.trace.iter().map(|x| (b'0' + x) as char).collect::<String>()));
            out.log.push(format!("steps={} preemptions={} abort={:?}", h.report.steps, h.report.preemptions, h.report.abort));
            out.log.push(describe_history(&h));
        }
        self.evaluate(&p, &h, &mut out);
        out
    }
    fn shrink(&self, case: &Case) -> Vec<Case> {
        let p = match TProgram::from_json(&case.data["program"]) {
            Some(p) => p,
            None => return vec![],
        };
        let mk = |q: &TProgram| Case {
            kind: "T".into(),
            data: json!({"program": q.to_json()}),
        };
        let mut cands = Vec::new();
        let resched = |q: &TProgram, cands: &mut Vec<Case>| {
            // a reduced program needs a schedule of its own: try a few
            for k in 0..24u64 {
                let mut q2 = q.clone();
                q2.sched = SchedSpec::Random { seed: 0xabc0 + k };
                cands.push(mk(&q2));
            }
        };
        // fewer clients
        if p.clients.len() > 2 {
            for i in 0..p.clients.len() {
                let mut q = p.clone();
                q.clients.remove(i);
                resched(&q, &mut cands);
            }
        }
        // fewer ops
        for i in 0..p.clients.len() {
            if p.clients[i].len() > 1 {
                for j in 0..p.clients[i].len() {
                    let mut q = p.clone();
                    q.clients[i].remove(j);
                    resched(&q, &mut cands);
                }
            }
        }
        // fewer init ops
        for i in 0..p.init.len() {
            let mut q = p.clone();
            q.init.remove(i);
            cands.push(mk(&q));
            resched(&q, &mut cands);
        }
        // simpler knobs
        if p.knobs.policy == Policy::Random && self.kind != TKind::C14 {
            let mut q = p.clone();
            q.knobs.policy = Policy::None;
            cands.push(mk(&q));
        }
        // make the schedule explicit
        match &p.sched {
            SchedSpec::Replay { list } => {
                // fewer context switches: let a thread run on where it was switched away
                for i in 1..list.len() {
                    if list[i] != list[i - 1] {
                        let mut l = list.clone();
                        l[i] = l[i - 1];
                        let mut q = p.clone();
                        q.sched = SchedSpec::Replay { list: l };
                        cands.push(mk(&q));
                    }
                }
                // drop the tail
                if list.len() > 2 {
                    let mut q = p.clone();
                    q.sched = SchedSpec::Replay { list: list[..list.len() - 1].to_vec() };
                    cands.push(mk(&q));
                }
            }
            _ => {
                let h = run_program(&p, BUDGET);
                let mut q = p.clone();
                q.sched = SchedSpec::Replay { list: h.report.trace.clone() };
                cands.push(mk(&q));
            }
        }
        cands
    }
    fn rule(&self) -> String {
        let what = match self.kind {
            TKind::C03 => "get / set / cas-set (current, stale) / delete (with and without CAS) on one key plus a bystander key",
            TKind::C04 => "add / replace / append / prepend / incr / decr (cas 0 or the current CAS) mixed with get / set / delete on one key",
            TKind::C16 => "any commands: single-key, multi-key, immediate and delayed flush, stores that trigger eviction sweeps, expiry collection",
            TKind::C05 => "every command on a key whose item is just alive or just expired and not yet collected",
            TKind::C15 => "stores of fresh keys, deletes of existing keys and gets under random eviction with limits 80..400 bytes",
            TKind::C02 => "set / cas-set (current, stale) / delete (with and without CAS) / get on one key",
            TKind::C08 => "delete (cas 0 / current / stale) racing set / cas-set / get on one key; immediate flushes racing stores over 3-4 keys",
            TKind::C14 => "stores / overwrites / appends / counter updates / deletes under random eviction with limits 0..300 bytes",
        };
        format!("seeded programs of 2-3 clients x 1-2 operations ({}) against every initial state of the key (absent, present, present-but-expired), both store stacks, shard counts 2/4/16; each run executes one program under one seeded schedule (uniform random, or PCT with 1-3 priority change points) on real threads of which exactly one holds the baton; scheduling points: before every DashMap shard-lock acquire, every access to cas_id / memory_usage, every clock read, every operation invoke and return. non-trivial = at least one preemption (another thread chosen although the running one could continue); distinct = distinct fingerprints of (schedule trace, scheduling events, requests, responses)", what)
    }
    fn assumptions(&self) -> Vec<String> {
        vec![
            "the scheduler is sequentially consistent: weak-memory reorderings of the Release-only RMWs on cas_id / memory_usage are not explored (single-location RMWs, totally ordered by coherence)".into(),
            "DashMap's production shard lock (parking-lot based) is still taken, but only after the scheduler granted it, so it never contends; its own correctness is trusted".into(),
            "the OS-scheduled many-thread stress half of the quantifier is runtime monitoring and is not done (DESIGN.md section 12)".into(),
        ]
    }
    fn components(&self) -> Value {
        json!({
            "real": ["binary_codec", "handler", "MemcStore", "RandomPolicy", "MemoryStore", "DashMap table logic and lock protocol (which lock, when, in which mode)"],
            "stub": ["thread scheduling (baton scheduler)", "DashMap shard-lock blocking (scheduler-mediated)", "cas_id / memory_usage atomics (std atomic + scheduling point)", "Timer (SimTimer)", "hasher seed / shard count"],
            "not_run": ["connection layer", "tokio"],
        })
    }
    fn sample(&self, case: &Case) -> Value {
        case.data["program"].clone()
    }
    fn signature(&self, v: &Violation) -> String {
        v.signature()
    }
}

pub fn checks() -> Vec<Box<dyn Check>> {
    vec![
        Box::new(TCheck { kind: TKind::C03 }),
        Box::new(TCheck { kind: TKind::C04 }),
        Box::new(TCheck { kind: TKind::C16 }),
    ]
}
