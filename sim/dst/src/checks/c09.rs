//! C09: request framing is independent of TCP segmentation.
//!
//! Metamorphic: the same byte stream is delivered one-shot and under every
//! single cut, sampled / all pairs of cuts, byte-at-a-time and random cuttings,
//! each time to a fresh server; response bytes, close state and the final store
//! dump must be identical. Plus the framing model on the one-shot delivery:
//! every frame occupies exactly 24 + body_length bytes or the connection is
//! closed at that frame.
use crate::check::{Case, Check, Outcome, Tier};
use crate::checks::hmodel::knobs_for;
use crate::driver::{Driver, Exec};
use crate::gen::{gen_keys, gen_value, Profile};
use crate::model::{LossMode, Violation};
use crate::ringh::RingH;
use crate::ringn::RingN;
use crate::rng::{Fp, Rng};
use crate::scenario::{CasSel, Ev, Knobs, Scenario, SymReq, Val};
use crate::segment::wire_len;
use crate::wire::{self, op};
use serde_json::{json, Value};

pub struct C09;

#[derive(Clone, Debug)]
struct Stream {
    knobs: Knobs,
    reqs: Vec<SymReq>,
    keys: Vec<Vec<u8>>,
}

fn stream_to_json(s: &Stream) -> Value {
    json!({
        "knobs": s.knobs.to_json(),
        "reqs": s.reqs.iter().map(|r| r.to_json()).collect::<Vec<_>>(),
        "keys": s.keys.iter().map(|k| wire::hex(k)).collect::<Vec<_>>(),
    })
}

fn stream_from_json(v: &Value) -> Option<Stream> {
    let knobs = Knobs::from_json(v.get("knobs")?)?;
    let mut reqs = Vec::new();
    for r in v.get("reqs")?.as_array()? {
        reqs.push(SymReq::from_json(r)?);
    }
    let mut keys = Vec::new();
    for k in v.get("keys")?.as_array()? {
        keys.push(wire::unhex(k.as_str()?)?);
    }
    Some(Stream { knobs, reqs, keys })
}

/// One request of any shape: valid, shape-odd, with unexpected extras / value.
pub fn gen_any_request(rng: &mut Rng, keys: &[Vec<u8>], p: &Profile, allow_unimplemented: bool, odd_pct: u64) -> SymReq {
    let key = keys[rng.usize(keys.len())].clone();
    let mut r = match rng.below(16) {
        0 | 1 => SymReq::get(*rng.pick(&[op::GET, op::GETQ, op::GETK, op::GETKQ]), &key),
        2 | 3 | 4 => SymReq::store(*rng.pick(&[op::SET, op::SETQ, op::ADD, op::ADDQ, op::REPLACE, op::REPLACEQ]), &key, gen_value(rng, p), rng.next() as u32, 0, CasSel::Zero),
        5 | 6 => SymReq::concat(*rng.pick(&[op::APPEND, op::APPENDQ, op::PREPEND, op::PREPENDQ]), &key, gen_value(rng, p), CasSel::Zero),
        7 | 8 => SymReq::counter(*rng.pick(&[op::INCR, op::INCRQ, op::DECR, op::DECRQ]), &key, rng.range(0, 9), rng.range(0, 99), if rng.chance(1, 5) { 0xffff_ffff } else { 0 }, CasSel::Zero),
        9 => SymReq::delete(*rng.pick(&[op::DELETE, op::DELETEQ]), &key, CasSel::Zero),
        10 => SymReq::flush(*rng.pick(&[op::FLUSH, op::FLUSHQ]), if rng.chance(1, 2) { None } else { Some(rng.range(0, 3) as u32) }),
        11 | 12 => SymReq::bare(*rng.pick(&[op::NOOP, op::VERSION, op::STAT])),
        13 if allow_unimplemented => {
            let mut r = SymReq::get(*rng.pick(&[op::TOUCH, op::GAT, op::GATQ, op::GATK, op::GATKQ, op::SASL_LIST, op::SASL_AUTH, op::SASL_STEP]), &key);
            if rng.chance(1, 2) {
                r.raw_extras = Some(vec![0, 0, 0, 10]);
            }
            if rng.chance(1, 3) {
                r.val = gen_value(rng, p);
            }
            r
        }
        _ => SymReq::get(op::GET, &key),
    };
    if rng.chance(odd_pct, 100) {
        // wrong shape for the opcode, but passing every listed validity rule
        match rng.below(5) {
            0 => {
                let n = if rng.chance(1, 2) { rng.below(21) as usize } else { *rng.pick(&[0usize, 4, 8, 12, 20]) };
                r.raw_extras = Some(rng.bytes(n));
            }
            1 => {
                let n = rng.range(1, 12) as usize;
                r.val = Val::Bytes(rng.bytes(n));
            }
            2 => {
                r.raw_extras = Some(Vec::new());
            }
            3 => {
                r.raw_extras = Some(rng.bytes(4));
                r.val = Val::Bytes(rng.bytes(3));
            }
            _ => {
                r.key = Vec::new();
                r.raw_extras = Some(rng.bytes(8));
            }
        }
    }
    // the reserved (vbucket) field of a request is not part of any rule: it must not matter
    // (it sits where the status sits in a response)
    if rng.chance(1, 10) {
        r.vbucket = 1 + (rng.next() % 0xffff) as u16;
    }
    r
}

fn gen_stream(run_seed: u64, tier: Tier) -> Stream {
    let mut krng = Rng::sub(run_seed, "knobs");
    let mut knobs = knobs_for(&mut krng, run_seed);
    knobs.item_limit = *krng.pick(&[1024u32, 1024, 4096, 1024 * 1024]);
    knobs.conn_limit = 8;
    knobs.timeout_secs = 60;
    let mut rng = Rng::sub(run_seed, "stream");
    let mut p = Profile::base();
    p.max_value = 20;
    p.big_value_pct = 0;
    p.numeric_pct = 30;
    let mut keys = gen_keys(&mut rng, 3);
    for k in keys.iter_mut() {
        k.truncate(12);
    }
    keys.dedup();
    let max_bytes = match tier {
        Tier::Quick => 220,
        Tier::Thorough => 600,
    };
    let n = rng.range(1, 8) as usize;
    let odd_pct = *rng.pick(&[0u64, 20, 50]);
    let mut reqs = Vec::new();
    let mut total = 0usize;
    let mut ctr = 0u32;
    let hi = (rng.next() as u32) & 0xffff_0000;
    for _ in 0..n {
        let mut r = gen_any_request(&mut rng, &keys, &p, true, odd_pct);
        ctr += 1;
        r.opaque = hi | ctr;
        let l = wire_len(&r);
        if total + l > max_bytes && !reqs.is_empty() {
            break;
        }
        total += l;
        reqs.push(r);
    }
    // occasionally one large in-limit store (> the connection's 4 KiB initial buffer, up to
    // beyond 64 KiB) with the rest of the pipeline behind it: the read that completes its body
    // usually carries bytes of the next request as well
    if rng.chance(1, 8) {
        knobs.item_limit = 1024 * 1024;
        // (among them the lengths that make the whole frame end exactly at, one before and one
        // after the 4096th byte of the stream's frame)
        let exact = 4096u32.saturating_sub(32 + keys[0].len() as u32);
        let len = *rng.pick(&[exact, exact - 1, exact + 1, 4073u32, 4100, 5000, 8192, 9000, 66_000]);
        let mut r = SymReq::store(*rng.pick(&[op::SET, op::SET, op::ADD, op::APPEND, op::SETQ]), &keys[0], Val::Pattern { seed: rng.next() as u32, len }, 3, 0, CasSel::Zero);
        ctr += 1;
        r.opaque = hi | ctr;
        let pos = rng.usize(reqs.len().max(1));
        reqs.insert(pos.min(reqs.len()), r);
    }
    // occasionally one oversized request (ring N only, few cuts)
    if rng.chance(1, 8) && knobs.item_limit == 1024 {
        let mut r = SymReq::store(op::SET, &keys[0], Val::Fill { byte: 0x5a, len: 1100 }, 0, 0, CasSel::Zero);
        ctr += 1;
        r.opaque = hi | ctr;
        let pos = rng.usize(reqs.len() + 1);
        reqs.insert(pos, r);
    }
    Stream { knobs, reqs, keys }
}

#[derive(Clone, Debug, PartialEq, Eq)]
struct Observed {
    out: Vec<u8>,
    closed: bool,
    dump: Vec<u8>,
}

fn build_scenario(s: &Stream, cuts: &[usize]) -> (Scenario, usize) {
    let mut sc = Scenario {
        knobs: s.knobs.clone(),
        events: vec![Ev::Connect { c: 0 }],
    };
    let mut total = 0usize;
    for r in &s.reqs {
        total += wire_len(r);
        sc.events.push(Ev::Send { c: 0, req: r.clone() });
    }
    let mut prev = 0usize;
    for &c in cuts {
        if c > prev && c < total {
            sc.events.push(Ev::Deliver { c: 0, n: (c - prev) as u32 });
            prev = c;
        }
    }
    sc.events.push(Ev::Deliver { c: 0, n: u32::MAX });
    (sc, total)
}

/// Run the stream under one segmentation; returns what a client can observe
/// and (for the framing model) the driver's violations.
fn run_once(s: &Stream, cuts: &[usize], ring_n: bool, keep_log: bool) -> (Observed, Vec<Violation>, crate::driver::Stats, u64, Vec<String>) {
    run_once_cap(s, cuts, ring_n, keep_log, 0)
}

/// `read_cap` > 0: the server's reads return at most that many bytes each (ring N).
fn run_once_cap(s: &Stream, cuts: &[usize], ring_n: bool, keep_log: bool, read_cap: u32) -> (Observed, Vec<Violation>, crate::driver::Stats, u64, Vec<String>) {
    let (mut sc, _total) = build_scenario(s, cuts);
    if read_cap > 0 {
        sc.events.insert(1, Ev::ReadCap { c: 0, n: read_cap });
    }
    let mut ring_h;
    let mut ring_nn;
    let exec: &mut dyn Exec = if ring_n {
        ring_nn = RingN::new(&s.knobs);
        &mut ring_nn
    } else {
        ring_h = RingH::new(&s.knobs);
        &mut ring_h
    };
    let mut d = Driver::new(exec, s.knobs.item_limit, if ring_n { s.knobs.timeout_secs } else { 0 }, LossMode::Strict).with_slack(1);
    d.keep_log = keep_log;
    for ev in &sc.events {
        d.step(ev);
    }
    // observer: dump every key through a second connection
    d.step(&Ev::Connect { c: 1 });
    for (i, k) in s.keys.iter().enumerate() {
        let mut r = SymReq::get(op::GETK, k);
        r.opaque = 0x0b5e_0000 | i as u32;
        d.step(&Ev::Send { c: 1, req: r });
    }
    d.step(&Ev::Deliver { c: 1, n: u32::MAX });
    d.finish();
    let obs = Observed {
        out: d.conns[0].raw_out.clone(),
        closed: d.conns[0].server_closed_seen,
        dump: d.conns.get(1).map(|c| c.raw_out.clone()).unwrap_or_default(),
    };
    let v = std::mem::take(&mut d.violations);
    let stats = d.stats.clone();
    let fp = d.fingerprint();
    let log = std::mem::take(&mut d.log);
    (obs, v, stats, fp, log)
}

fn has_oversized(s: &Stream) -> bool {
    s.reqs.iter().any(|r| wire_len(r) as u64 > s.knobs.item_limit as u64 + 24)
}

/// framing-model violations that can only come from misframing in these streams
fn framing_claim(v: &Violation) -> Option<Violation> {
    let ok = matches!(
        (v.prop, v.clause),
        ("C12", "loud-request-unanswered")
            | ("C12", "response-out-of-order")
            | ("C12", "unsolicited-response")
            | ("C12", "unexpected-close")
            | ("C11", "not-a-response-frame")
            | ("C10", "invalid-frame-ignored")
            | ("C13", "oversized-unanswered")
            | ("C13", "oversized-closed")
    );
    if ok {
        Some(Violation::new("C09", "frame-boundary-lost", format!("framing model: {} [{}:{}]", v.detail, v.prop, v.clause)))
    } else {
        None
    }
}

fn compare(reference: &Observed, got: &Observed, cuts: &[usize], ring: &str) -> Option<Violation> {
    if reference == got {
        return None;
    }
    let what = if reference.out != got.out {
        format!("response bytes differ (one-shot {} bytes: {}, segmented {} bytes: {})", reference.out.len(), wire::hex_short(&reference.out, 48), got.out.len(), wire::hex_short(&got.out, 48))
    } else if reference.closed != got.closed {
        format!("connection closed: one-shot {}, segmented {}", reference.closed, got.closed)
    } else {
        "final store contents differ".to_string()
    };
    Some(Violation::new("C09", "segmentation-dependent", format!("ring {} cuts {:?}: {}", ring, cuts, what)))
}

impl C09 {
    /// All segmentations of one stream. Stops at the first failing one.
    fn sweep(&self, s: &Stream, tier: Tier, out: &mut Outcome, seed: u64) -> Option<(Violation, Vec<usize>, bool)> {
        let total: usize = s.reqs.iter().map(wire_len).sum();
        let oversized = has_oversized(s);
        let mut fp = Fp::new();
        // reference: one-shot, both rings (ring H only when nothing is oversized:
        // its connection layer is an emulation)
        let rings: Vec<bool> = if oversized { vec![true] } else { vec![true, false] };
        for ring_n in rings {
            let ring = if ring_n { "N" } else { "H" };
            let (reference, viols, stats, f, _) = run_once(s, &[], ring_n, false);
            out.stats.merge(&stats);
            fp.u64(f);
            out.count("segmentations", 1);
            for v in &viols {
                if let Some(c) = framing_claim(v) {
                    return Some((c, vec![], ring_n));
                }
                out.all.push(v.clone());
                *out.out_of_scope.entry(v.signature()).or_insert(0) += 1;
            }
            let mut try_cuts = |cuts: Vec<usize>, out: &mut Outcome, fp: &mut Fp| -> Option<(Violation, Vec<usize>, bool)> {
                let (got, _v, stats, f, _) = run_once(s, &cuts, ring_n, false);
                out.stats.merge(&stats);
                fp.u64(f);
                out.count("segmentations", 1);
                compare(&reference, &got, &cuts, ring).map(|v| (v, cuts, ring_n))
            };
            // every single cut
            let step = if total > 700 { (total / 300).max(1) } else { 1 };
            let mut c = 1;
            while c < total {
                if let Some(r) = try_cuts(vec![c], out, &mut fp) {
                    return Some(r);
                }
                c += step;
            }
            // frame-relative cuts for big streams
            if step > 1 {
                let mut off = 0;
                for r in &s.reqs {
                    let l = wire_len(r);
                    for d in [0usize, 1, 23, 24, 25, l / 2, l - 1] {
                        let c = off + d.min(l - 1);
                        if c > 0 && c < total {
                            if let Some(r) = try_cuts(vec![c], out, &mut fp) {
                                return Some(r);
                            }
                        }
                    }
                    off += l;
                }
            }
            // pairs of cuts: all of them at the decoder for short streams, a sample at the socket
            let mut prng = Rng::sub(seed, if ring_n { "pairsN" } else { "pairsH" });
            if !ring_n && total <= if tier == Tier::Quick { 120 } else { 260 } {
                for a in 1..total {
                    for b in (a + 1)..total {
                        if let Some(r) = try_cuts(vec![a, b], out, &mut fp) {
                            return Some(r);
                        }
                    }
                }
                out.count("streams_with_all_pairs", 1);
            } else if total > 2 {
                let n = if tier == Tier::Quick { 48 } else { 400 };
                for _ in 0..n {
                    let a = prng.range(1, total as u64 - 1) as usize;
                    let b = prng.range(1, total as u64 - 1) as usize;
                    let (a, b) = (a.min(b), a.max(b));
                    if a != b {
                        if let Some(r) = try_cuts(vec![a, b], out, &mut fp) {
                            return Some(r);
                        }
                    }
                }
            }
            // the server itself reads in small pieces (whatever the delivery looks like)
            if ring_n {
                for cap in [1u32, 7, 23, 24, 25, 64] {
                    let (got, _v, stats, f, _) = run_once_cap(s, &[], true, false, cap);
                    out.stats.merge(&stats);
                    fp.u64(f);
                    out.count("segmentations", 1);
                    out.count("read_cap_runs", 1);
                    if let Some(v) = compare(&reference, &got, &[], "N") {
                        let v = Violation::new("C09", "segmentation-dependent", format!("server reads capped at {} bytes: {}", cap, v.detail));
                        // the equivalent explicit segmentation: pieces of `cap` bytes
                        return Some((v, (cap as usize..total).step_by(cap as usize).collect(), true));
                    }
                }
            }
            // byte at a time
            if total <= 700 {
                let cuts: Vec<usize> = (1..total).collect();
                if let Some(r) = try_cuts(cuts, out, &mut fp) {
                    return Some(r);
                }
            }
            // random cuttings
            let n = if tier == Tier::Quick { 16 } else { 64 };
            for _ in 0..n {
                let k = prng.range(1, 6) as usize;
                let mut cuts: Vec<usize> = (0..k).map(|_| prng.range(1, (total as u64 - 1).max(1)) as usize).collect();
                cuts.sort();
                cuts.dedup();
                if let Some(r) = try_cuts(cuts, out, &mut fp) {
                    return Some(r);
                }
            }
        }
        out.fp = fp.0;
        None
    }
}

impl Check for C09 {
    fn id(&self) -> &'static str {
        "C09"
    }
    fn runs(&self, tier: Tier) -> u64 {
        match tier {
            Tier::Quick => 3000,
            Tier::Thorough => 15_000,
        }
    }
    fn generate(&self, run_seed: u64, _index: u64, tier: Tier) -> Case {
        let s = gen_stream(run_seed, tier);
        Case {
            kind: "C09".into(),
            data: json!({"mode": "sweep", "tier": tier.name(), "seed": run_seed, "stream": stream_to_json(&s)}),
        }
    }
    fn execute(&self, case: &Case) -> Outcome {
        let mut out = Outcome::default();
        let s = match stream_from_json(&case.data["stream"]) {
            Some(s) => s,
            None => {
                eprintln!("harness error: bad C09 case");
                std::process::exit(2);
            }
        };
        let keep_log = case.data.get("log").is_some();
        let mode = case.data["mode"].as_str().unwrap_or("sweep");
        if mode == "sweep" {
            let tier = if case.data["tier"].as_str() == Some("thorough") { Tier::Thorough } else { Tier::Quick };
            let seed = case.data["seed"].as_u64().unwrap_or(0);
            if let Some((v, _cuts, _ring)) = self.sweep(&s, tier, &mut out, seed) {
                out.all.push(v.clone());
                out.violations.push(v);
            }
            out.nontrivial = s.reqs.len() > 1 || out.stats.cuts_inside_frame > 0;
        } else {
            let cuts: Vec<usize> = case.data["cuts"].as_array().map(|a| a.iter().filter_map(|x| x.as_u64()).map(|x| x as usize).collect()).unwrap_or_default();
            let ring_n = case.data["ring"].as_str() != Some("H");
            let (reference, viols, st1, f1, log1) = run_once(&s, &[], ring_n, keep_log);
            out.stats.merge(&st1);
            for v in &viols {
                if let Some(c) = framing_claim(v) {
                    out.all.push(c.clone());
                    out.violations.push(c);
                }
            }
            let (got, _v, st2, f2, log2) = run_once(&s, &cuts, ring_n, keep_log);
            out.stats.merge(&st2);
            if let Some(v) = compare(&reference, &got, &cuts, if ring_n { "N" } else { "H" }) {
                out.all.push(v.clone());
                out.violations.push(v);
            }
            let mut fp = Fp::new();
            fp.u64(f1);
            fp.u64(f2);
            out.fp = fp.0;
            out.nontrivial = true;
            if keep_log {
                out.log.push("--- one-shot delivery".into());
                out.log.extend(log1);
                out.log.push(format!("--- cuts {:?}", cuts));
                out.log.extend(log2);
            }
        }
        out
    }
    fn shrink(&self, case: &Case) -> Vec<Case> {
        let s = match stream_from_json(&case.data["stream"]) {
            Some(s) => s,
            None => return vec![],
        };
        let mode = case.data["mode"].as_str().unwrap_or("sweep");
        if mode == "sweep" {
            // pin the failing segmentation
            let tier = if case.data["tier"].as_str() == Some("thorough") { Tier::Thorough } else { Tier::Quick };
            let seed = case.data["seed"].as_u64().unwrap_or(0);
            let mut out = Outcome::default();
            if let Some((_v, cuts, ring_n)) = self.sweep(&s, tier, &mut out, seed) {
                return vec![Case {
                    kind: "C09".into(),
                    data: json!({"mode": "single", "cuts": cuts, "ring": if ring_n { "N" } else { "H" }, "stream": stream_to_json(&s)}),
                }];
            }
            return vec![];
        }
        let cuts: Vec<usize> = case.data["cuts"].as_array().map(|a| a.iter().filter_map(|x| x.as_u64()).map(|x| x as usize).collect()).unwrap_or_default();
        let ring = case.data["ring"].clone();
        let mk = |s2: &Stream, cuts2: &[usize]| Case {
            kind: "C09".into(),
            data: json!({"mode": "single", "cuts": cuts2, "ring": ring, "stream": stream_to_json(s2)}),
        };
        let mut cands = Vec::new();
        // drop a request (cuts after it shift)
        let mut off = 0usize;
        for i in 0..s.reqs.len() {
            let l = wire_len(&s.reqs[i]);
            if s.reqs.len() > 1 {
                let mut s2 = s.clone();
                s2.reqs.remove(i);
                let cuts2: Vec<usize> = cuts.iter().filter(|&&c| c <= off || c >= off + l).map(|&c| if c >= off + l { c - l } else { c }).collect();
                cands.push(mk(&s2, &cuts2));
            }
            off += l;
        }
        // drop a cut
        for i in 0..cuts.len() {
            let mut c2 = cuts.clone();
            c2.remove(i);
            cands.push(mk(&s, &c2));
        }
        // shrink values
        for i in 0..s.reqs.len() {
            if s.reqs[i].val.len() > 0 && s.reqs[i].val.len() < 1000 {
                let mut s2 = s.clone();
                let l0 = wire_len(&s.reqs[i]);
                s2.reqs[i].val = Val::Bytes(Vec::new());
                let l1 = wire_len(&s2.reqs[i]);
                let start: usize = s.reqs[..i].iter().map(wire_len).sum();
                let d = l0 - l1;
                let cuts2: Vec<usize> = cuts.iter().map(|&c| if c >= start + l0 { c - d } else { c.min(start + l1) }).collect();
                cands.push(mk(&s2, &cuts2));
            }
        }
        cands
    }
    fn rule(&self) -> String {
        "seeded pipelined streams of 1-8 requests of every opcode (valid, wrong shape for the opcode, unimplemented, now and then one oversized); each stream is delivered to a fresh server one-shot (reference) and then under every single cut point, all pairs of cut points at the decoder for short streams (a sample at the socket), byte-at-a-time and random cuttings, at the decoder (ring H) and at the socket (ring N); oracle: response bytes, close state and final store dump equal the reference, and on the reference the framing model holds (each frame occupies 24+body_length bytes or the connection closes there). evaluations = streams; a stream is non-trivial when it has more than one request or a cut fell inside a frame; distinct = distinct digests over all its segmentations' event logs".into()
    }
    fn assumptions(&self) -> Vec<String> {
        vec![
            "ring H feeds MemcacheBinaryCodec::decode directly (caller-owned BytesMut resumed after every 'need more'); streams with an oversized request run on ring N only".into(),
            "the simulated transport delivers exactly the chosen number of bytes per readable event; the server always drains what is readable before the next event (run to quiescence)".into(),
        ]
    }
    fn components(&self) -> Value {
        json!({
            "real": ["binary_codec", "binary_connection (ring N)", "client_handler (ring N)", "memc_tcp accept loop (ring N)", "handler", "store stack", "tokio current_thread runtime + paused clock (ring N)"],
            "stub": ["TcpStream/TcpListener (simseam::net)", "DashMap hasher seed / shard count"],
        })
    }
    fn sample(&self, case: &Case) -> Value {
        json!({"mode": case.data["mode"], "reqs": case.data["stream"]["reqs"], "cuts": case.data.get("cuts")})
    }
}
