//! C20 (c): the start-up path. `cli::parser::parse` and
//! `runtime_builder::create_memcrs_server` run for real; their listeners bind to
//! the simulated network, but the server runs on the OS threads and tokio
//! runtimes that runtime_builder creates, whose scheduling the simulator does
//! not own. Only schedule-independent observations are made.
use crate::check::{Case, Outcome, Tier};
use crate::model::Violation;
use crate::rng::{Fp, Rng};
use crate::wire::{self, op, parse_response, status, Request, Response};
use memcrs::server::timer::SystemTimer;
use serde_json::json;
use simseam::net::SimNet;
use std::sync::Arc;
use std::time::{Duration, Instant};

pub fn quick_configs() -> u64 {
    // every combination of runtime type x threads {1,2,8} x eviction policy once
    12
}

pub fn thorough_configs() -> u64 {
    48
}

pub fn generate(run_seed: u64, index: u64, _tier: Tier) -> Case {
    let mut rng = Rng::sub(run_seed, "startup");
    let runtimes = ["current-thread", "multi-thread"];
    let threads = [1u64, 2, 8];
    let policies = ["none", "random"];
    // walk the combinations systematically, randomise the rest
    let runtime = runtimes[(index % 2) as usize];
    let th = threads[((index / 2) % 3) as usize];
    let policy = policies[((index / 6) % 2) as usize];
    let limit = *rng.pick(&[1u64, 2, 3]);
    let item = *rng.pick(&["1KiB", "2KiB", "64KiB", "1MiB"]);
    // a memory limit below the item size limit must not change what is accepted
    // (it only matters to the random eviction policy, which never refuses a store)
    // (4 GiB and more do not fit 32 bits)
    let memory = *rng.pick(&["1GiB", "64MiB", "16KiB", "512B", "4GiB", "8GiB", "4097MiB"]);
    let port = 12000 + (index % 20000);
    // (index % 6 == 2: current-thread runtime, == 5: multi-thread runtime)
    let ttl_probe = index % 6 == 5 || index % 6 == 2;
    // the listen backlog is a configuration knob like the others: it must not change behaviour
    let backlog = *rng.pick(&["1024", "1024", "16", "4096"]);
    Case {
        kind: "startup".into(),
        data: json!({
            "args": ["memcrsd", "--port", port.to_string(), "--connection-limit", limit.to_string(), "--threads", th.to_string(),
                     "--runtime-type", runtime, "--eviction-policy", policy, "--item-size-limit", item, "--memory-limit", memory,
                     "--backlog-limit", backlog],
            "port": port, "threads": th, "runtime": runtime, "limit": limit, "item": item, "policy": policy, "memory": memory, "ttl_probe": ttl_probe,
        }),
    }
}

fn item_bytes(s: &str) -> u32 {
    match s {
        "1KiB" => 1024,
        "2KiB" => 2048,
        "64KiB" => 65536,
        _ => 1024 * 1024,
    }
}

struct Client {
    net: Arc<SimNet>,
    id: usize,
    rx: Vec<u8>,
}

impl Client {
    /// A full accept queue drops the SYN; the client retries, as TCP does.
    fn open(net: &Arc<SimNet>, listener: usize) -> Option<Client> {
        let t0 = Instant::now();
        loop {
            if let Some(id) = net.connect(listener) {
                return Some(Client {
                    net: net.clone(),
                    id,
                    rx: Vec::new(),
                });
            }
            if t0.elapsed() > Duration::from_secs(10) {
                return None;
            }
            std::thread::sleep(Duration::from_millis(1));
        }
    }
    fn send(&self, r: &Request) {
        self.net.deliver(self.id, &r.encode());
    }
    /// Wait (real time) for one response.
    fn recv(&mut self, deadline: Duration) -> Option<Response> {
        let t0 = Instant::now();
        loop {
            self.rx.extend(self.net.take_output(self.id));
            if let Ok(Some((r, used))) = parse_response(&self.rx) {
                self.rx.drain(..used);
                return Some(r);
            }
            if t0.elapsed() > deadline {
                return None;
            }
            std::thread::sleep(Duration::from_millis(1));
        }
    }
    fn close(&self) {
        self.net.fin(self.id);
    }
}

const LONG: Duration = Duration::from_secs(30);
const SETTLE: Duration = Duration::from_millis(400);

pub fn execute(case: &Case) -> Outcome {
    let mut out = Outcome::default();
    out.nontrivial = true;
    out.count("uncontrolled_schedule_runs", 1);
    let d = &case.data;
    let args: Vec<String> = d["args"].as_array().map(|a| a.iter().filter_map(|v| v.as_str()).map(|s| s.to_string()).collect()).unwrap_or_default();
    let port = d["port"].as_u64().unwrap_or(12000) as u16;
    let threads = d["threads"].as_u64().unwrap_or(1) as usize;
    let runtime = d["runtime"].as_str().unwrap_or("current-thread").to_string();
    let limit = d["limit"].as_u64().unwrap_or(1) as usize;
    let item = item_bytes(d["item"].as_str().unwrap_or("1MiB"));
    let ttl_probe = d["ttl_probe"].as_bool().unwrap_or(false);
    let mut viols: Vec<Violation> = Vec::new();
    let mut fp = Fp::new();

    let net = SimNet::new();
    SimNet::register_global(port, &net);
    let config = match memcrs::memcache::cli::parser::parse(args.clone()) {
        Ok(c) => c,
        Err(e) => {
            eprintln!("harness error: cli parse failed: {}", e);
            std::process::exit(2);
        }
    };
    let timer = Arc::new(SystemTimer::new());
    let parent = memcrs::memcache_server::runtime_builder::create_memcrs_server(config, timer.clone());
    // like main(): the parent runtime drives the 1 Hz clock
    let t2 = timer.clone();
    std::thread::spawn(move || {
        parent.block_on(t2.run());
    });
    let want_listeners = if runtime == "current-thread" { threads } else { 1 };
    let t0 = Instant::now();
    while net.listeners() < want_listeners && t0.elapsed() < LONG {
        std::thread::sleep(Duration::from_millis(1));
    }
    let listeners = net.listeners();
    out.count("listeners_bound", listeners as u64);
    if listeners != want_listeners {
        viols.push(Violation::new("C20", "startup-listeners", format!("{} {} thread(s): {} listener(s) bound, expected {}", runtime, threads, listeners, want_listeners)));
    }
    if listeners > 0 {
        // ---- (1) a synchronous single-connection program; expected answers by value
        let mut c = Client::open(&net, 0).expect("connect");
        let mut step = |c: &mut Client, r: Request, what: &str, check: &dyn Fn(&Response) -> bool, viols: &mut Vec<Violation>, fp: &mut Fp| {
            c.send(&r);
            match c.recv(LONG) {
                Some(resp) => {
                    fp.u64(resp.status as u64);
                    fp.bytes(&resp.body);
                    if !check(&resp) || resp.opaque != r.opaque || resp.opcode != r.opcode {
                        viols.push(Violation::new("C20", "behaviour-depends-on-configuration", format!("{} {} thread(s): {} answered {}", d["runtime"], threads, what, resp.short())));
                    }
                }
                None => viols.push(Violation::new("C20", "behaviour-depends-on-configuration", format!("{} {} thread(s): {} got no answer within {:?}", d["runtime"], threads, what, LONG))),
            }
        };
        let mut set = Request::store(op::SET, b"cfg", b"41", 0xabcd, 0, 0);
        set.opaque = 1;
        step(&mut c, set, "set", &|r| r.status == status::OK && r.cas != 0, &mut viols, &mut fp);
        let mut incr = Request::counter(op::INCR, b"cfg", 1, 0, 0, 0);
        incr.opaque = 2;
        step(&mut c, incr, "incr", &|r| r.status == status::OK && r.counter() == Some(42), &mut viols, &mut fp);
        let mut get = Request::get(op::GETK, b"cfg");
        get.opaque = 3;
        step(&mut c, get, "getk", &|r| r.status == status::OK && r.value() == b"42" && r.flags() == Some(0xabcd) && r.key() == b"cfg", &mut viols, &mut fp);
        let mut add = Request::store(op::ADD, b"cfg", b"x", 0, 0, 0);
        add.opaque = 4;
        step(&mut c, add, "add on a present key", &|r| r.status == status::EXISTS, &mut viols, &mut fp);
        // a second key: with a few dozen bytes stored no configured memory limit is reached,
        // so the first item must still be there
        let mut set2 = Request::store(op::SET, b"cfg2", b"other", 7, 0, 0);
        set2.opaque = 40;
        step(&mut c, set2, "set of a second key", &|r| r.status == status::OK, &mut viols, &mut fp);
        let mut get1 = Request::get(op::GET, b"cfg");
        get1.opaque = 41;
        step(&mut c, get1, "get of the first key after a second one was stored (memory limit not reached)", &|r| r.status == status::OK && r.value() == b"42", &mut viols, &mut fp);
        // a delayed flush that is not yet due changes nothing visible - under every runtime flavour
        // (the walk over the store must not depend on which scheduler runs the connection)
        let mut fl = Request::flush(op::FLUSH, Some(3600));
        fl.opaque = 42;
        step(&mut c, fl, "flush with a delay of one hour", &|r| r.status == status::OK, &mut viols, &mut fp);
        let mut get2 = Request::get(op::GET, b"cfg2");
        get2.opaque = 43;
        step(&mut c, get2, "get right after a flush that is due in an hour", &|r| r.status == status::OK && r.value() == b"other", &mut viols, &mut fp);
        // ---- (2) the configured item size limit is the one enforced
        let big = vec![b'z'; item as usize + 1];
        let mut over = Request::store(op::SET, b"big", &big, 0, 0, 0);
        over.opaque = 5;
        step(&mut c, over, "set above --item-size-limit", &|r| r.status == status::TOO_LARGE, &mut viols, &mut fp);
        let fit = vec![b'y'; item as usize - 8 - 3];
        let mut at = Request::store(op::SET, b"fit", &fit, 0, 0, 0);
        at.opaque = 6;
        step(&mut c, at, "set of exactly --item-size-limit", &|r| r.status == status::OK, &mut viols, &mut fp);
        // ---- (3) one TTL probe on the real 1 Hz clock
        if ttl_probe {
            // the real 1 Hz clock: an item with ttl 2 lives between 1 and 2 real seconds.
            // Expected hit: only asserted when less than 0.8 s of real time have passed;
            // expected miss: polled with a long deadline (a starved timer thread can delay
            // it, never make it fail)
            let mut s = Request::store(op::SET, b"ttl", b"v", 0, 2, 0);
            s.opaque = 7;
            let t_set = Instant::now();
            step(&mut c, s, "set ttl=2", &|r| r.status == status::OK, &mut viols, &mut fp);
            let mut g = Request::get(op::GET, b"ttl");
            g.opaque = 8;
            c.send(&g);
            if let Some(r) = c.recv(LONG) {
                if t_set.elapsed() < Duration::from_millis(800) && r.status != status::OK {
                    viols.push(Violation::new("C20", "expiry-does-not-follow-real-seconds", format!("{} {} thread(s): an item with ttl 2 was gone {:?} after it was stored", runtime, threads, t_set.elapsed())));
                }
            }
            std::thread::sleep(Duration::from_millis(2200));
            let t_poll = Instant::now();
            let mut gone = false;
            let mut k = 0u32;
            while t_poll.elapsed() < LONG {
                let mut g = Request::get(op::GET, b"ttl");
                g.opaque = 9 + k;
                k += 1;
                c.send(&g);
                match c.recv(LONG) {
                    Some(r) if r.status == status::NOT_FOUND => {
                        gone = true;
                        break;
                    }
                    _ => std::thread::sleep(Duration::from_millis(100)),
                }
            }
            if !gone {
                viols.push(Violation::new("C20", "expiry-does-not-follow-real-seconds", format!("{} {} thread(s): an item with ttl 2 is still returned {:?} after it was stored (is the 1 Hz clock driven in this configuration?)", runtime, threads, t_set.elapsed())));
            }
            fp.u8(gone as u8);
            out.count("ttl_probes_on_real_clock", 1);
        }
        c.close();
        // wait until its slot is back: a fresh connection is served
        std::thread::sleep(Duration::from_millis(50));
        // ---- (3b) with nothing else open, a connection is served whichever listener the kernel hands it to
        // (the limit is not exceeded by one connection, so it may not wait)
        for l in 0..listeners {
            if let Some(mut c1) = Client::open(&net, l) {
                let mut n = Request::bare(op::NOOP);
                n.opaque = 50 + l as u32;
                c1.send(&n);
                let ok = c1.recv(LONG).is_some();
                fp.u8(ok as u8);
                out.count("single_connection_per_listener_probes", 1);
                if !ok {
                    viols.push(Violation::new(
                        "C20",
                        "connection-waits-although-under-the-limit",
                        format!("{} runtime, {} thread(s), --connection-limit {}: the only open connection, arriving at listener {} of {}, was not served within {:?}", runtime, threads, limit, l, listeners, LONG),
                    ));
                    c1.close();
                    break;
                }
                c1.close();
                std::thread::sleep(Duration::from_millis(20));
            }
        }
        // ---- (3c) sessions that end by quit and quitq come first: however connections ended
        // before, the limit enforced afterwards is still the configured one
        for (k, opq) in [(op::QUIT, 60u32), (op::QUITQ, 61u32)] {
            if let Some(mut cq) = Client::open(&net, k as usize % listeners.max(1)) {
                let mut n = Request::bare(op::NOOP);
                n.opaque = opq;
                cq.send(&n);
                let _ = cq.recv(LONG);
                let mut q = Request::bare(k);
                q.opaque = opq + 10;
                cq.send(&q);
                if k == op::QUIT {
                    let _ = cq.recv(LONG);
                }
                std::thread::sleep(Duration::from_millis(30));
                cq.close();
                std::thread::sleep(Duration::from_millis(20));
                out.count("sessions_ended_by_quit_before_the_limit_probe", 1);
            }
        }
        // ---- (4) the configured connection limit is the one enforced, whichever listener gets the connections
        let mut clients: Vec<Client> = Vec::new();
        for k in 0..limit + 1 {
            // the simulator decides which SO_REUSEPORT listener receives each connection: spread them
            let l = k % listeners;
            if let Some(c) = Client::open(&net, l) {
                clients.push(c);
            }
        }
        for (k, c) in clients.iter().enumerate() {
            let mut n = Request::bare(op::NOOP);
            n.opaque = 100 + k as u32;
            c.send(&n);
        }
        let mut answered = 0usize;
        let t1 = Instant::now();
        // expected answers: long deadline for `limit` of them
        let mut got = vec![false; clients.len()];
        while answered < limit && t1.elapsed() < LONG {
            for (k, c) in clients.iter_mut().enumerate() {
                if !got[k] && c.recv(Duration::from_millis(1)).is_some() {
                    got[k] = true;
                    answered += 1;
                }
            }
        }
        // expected silence: a short settle time for the one beyond the limit
        let t2 = Instant::now();
        while t2.elapsed() < SETTLE {
            for (k, c) in clients.iter_mut().enumerate() {
                if !got[k] && c.recv(Duration::from_millis(1)).is_some() {
                    got[k] = true;
                    answered += 1;
                }
            }
        }
        fp.u64(answered.min(limit) as u64);
        out.count("connection_limit_probes", 1);
        if answered > limit {
            viols.push(Violation::new(
                "C20",
                "connection-limit-not-the-configured-one",
                format!("{} runtime, {} thread(s), --connection-limit {}: {} of {} simultaneous connections (spread over {} listeners) were served", runtime, threads, limit, answered, clients.len(), listeners),
            ));
        } else if answered < limit {
            viols.push(Violation::new("C20", "connection-limit-not-the-configured-one", format!("{} runtime, {} thread(s), --connection-limit {}: only {} connections were served within {:?}", runtime, threads, limit, answered, LONG)));
        }
        for c in &clients {
            c.close();
        }
    }
    SimNet::unregister_global(port);
    // panics on the threads runtime_builder started (they end a connection task or a listener)
    for pmsg in crate::stack::take_foreign_panics() {
        viols.push(Violation::new("C20", "panic-under-this-configuration", format!("{} runtime, {} thread(s): a server thread panicked: {}", runtime, threads, pmsg)));
    }
    out.fp = fp.0;
    out.stats.requests = 6 + limit as u64 + 1;
    out.absorb(viols, &|v| v.prop == "C20");
    let _ = wire::hex(&[]);
    out
}
