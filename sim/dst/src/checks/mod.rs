pub mod c09;
pub mod evict;
pub mod hmodel;
pub mod netscn;
pub mod tchecks;

use crate::check::Check;

pub fn all() -> Vec<Box<dyn Check>> {
    let mut v: Vec<Box<dyn Check>> = Vec::new();
    v.extend(hmodel::checks());
    v.push(Box::new(c09::C09));
    v.extend(netscn::checks());
    v.extend(tchecks::checks());
    v.extend(evict::checks());
    v
}

pub fn by_id(id: &str) -> Option<Box<dyn Check>> {
    all().into_iter().find(|c| c.id() == id)
}
