pub mod c09;
pub mod c10;
pub mod conn;
pub mod evict;
pub mod hmodel;
pub mod netscn;
pub mod pairs;
pub mod startup;
pub mod tchecks;

use crate::check::Check;

pub fn all() -> Vec<Box<dyn Check>> {
    let mut v: Vec<Box<dyn Check>> = Vec::new();
    v.extend(hmodel::checks());
    v.push(Box::new(c09::C09));
    v.extend(netscn::checks());
    v.extend(tchecks::checks());
    v.extend(evict::checks());
    v.extend(conn::checks());
    v.extend(c10::checks());
    v.extend(pairs::checks());
    v
}

pub fn by_id(id: &str) -> Option<Box<dyn Check>> {
    all().into_iter().find(|c| c.id() == id)
}
