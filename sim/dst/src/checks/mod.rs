pub mod hmodel;

use crate::check::Check;

pub fn all() -> Vec<Box<dyn Check>> {
    let mut v: Vec<Box<dyn Check>> = Vec::new();
    v.extend(hmodel::checks());
    v
}

pub fn by_id(id: &str) -> Option<Box<dyn Check>> {
    all().into_iter().find(|c| c.id() == id)
}
