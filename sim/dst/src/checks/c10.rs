//! C10: no client input can crash, hang or bloat request processing.
//! Ring H: the boundary grid of header fields, one opcode per run, every
//! decoded request executed and encoded. Ring N: byzantine clients (random
//! bytes, mutated valid streams, extreme announced lengths) with random
//! segmentation; allocation high-water via the counting allocator.
use crate::alloc;
use crate::check::{Case, Check, Outcome, Tier};
use crate::checks::c09::gen_any_request;
use crate::driver::{Driver, Exec};
use crate::framing::{classify, FrameClass};
use crate::gen::{gen_keys, Profile};
use crate::model::{LossMode, Violation};
use crate::ringh::RingH;
use crate::ringn::RingN;
use crate::rng::{Fp, Rng};
use crate::scenario::{Ev, Knobs, Scenario, SymReq};
use crate::segment::{cut_sizes, SegStyle};
use crate::wire::{self, op, op_info, parse_response, status, Request};
use serde_json::{json, Value};

pub struct C10;

const KEY_LENS: [u16; 8] = [0, 1, 2, 3, 8, 250, 251, 65535];
// every length around the fixed extras blocks the parsers read (4, 8, 20 bytes)
const EXTRAS_LENS: [u8; 15] = [0, 1, 2, 3, 4, 5, 7, 8, 9, 12, 16, 19, 20, 21, 255];

fn body_lens(kl: u16, el: u8, limit: u32) -> Vec<u32> {
    let ke = kl as u32 + el as u32;
    let mut v = vec![0, 3, 4, 7, 8, 19, 20, ke.saturating_sub(1), ke, ke + 1, ke + 8, limit.saturating_sub(1), limit, limit + 1, 2 * limit, 0x00ff_ffff, 0x7fff_ffff, 0xffff_ffff];
    v.sort();
    v.dedup();
    v
}

/// One header of the grid, with `avail` body bytes actually present.
fn grid_frame(opcode: u8, kl: u16, el: u8, bl: u32, magic: u8, dt: u8, cas: u64, avail: usize) -> (Request, Vec<u8>) {
    let mut r = Request::new(opcode);
    r.magic = magic;
    r.data_type = dt;
    r.opaque = 0x1000_0000 | opcode as u32;
    r.cas = cas;
    r.key_len_override = Some(kl);
    r.extras_len_override = Some(el);
    r.body_len_override = Some(bl);
    let mut bytes = r.encode();
    // body: extras look like numbers / flags, key bytes 'k', value digits
    let mut body = Vec::with_capacity(avail);
    for i in 0..avail {
        let b = if i < el as usize {
            [0u8, 0, 0, 1, 0xff, 0xff, 0xff, 0xff][i % 8]
        } else if i < el as usize + kl as usize {
            b'k'
        } else {
            b'7'
        };
        body.push(b);
    }
    bytes.extend_from_slice(&body);
    // for the model: reconstruct the parts a reader of the header would see
    let e = (el as usize).min(avail);
    let k = (kl as usize).min(avail - e);
    r.extras = body[..e].to_vec();
    r.key = body[e..e + k].to_vec();
    r.value = body[e + k..].to_vec();
    (r, bytes)
}

struct GridFail {
    detail: String,
    clause: &'static str,
    bytes: Vec<u8>,
    limit: u32,
    chunks: Vec<usize>,
}

/// Feed one frame (in the given chunks) to a fresh ring-H connection and judge it.
fn judge_h(knobs: &Knobs, req: &Request, bytes: &[u8], chunks: &[usize]) -> (Option<(&'static str, String)>, u64) {
    let mut ring = RingH::new(knobs);
    ring.connect(0);
    let mut fed = 0usize;
    for &c in chunks {
        let end = (fed + c).min(bytes.len());
        if end > fed {
            ring.deliver(0, &bytes[fed..end]);
            fed = end;
        }
    }
    if fed < bytes.len() {
        ring.deliver(0, &bytes[fed..]);
    }
    let panics = ring.take_panics();
    if let Some(p) = panics.first() {
        return (Some(("panic", format!("panic inside the server: {}", p))), 0);
    }
    let out = ring.take_output(0);
    let class = classify(req, knobs.item_limit);
    let mut fp = Fp::new();
    fp.bytes(&out);
    // requests the listed rules call invalid are never executed
    let never = matches!(class, FrameClass::HeaderInvalid | FrameClass::UnknownOp | FrameClass::BodyInvalid);
    if never {
        if let Ok(Some((r, _))) = parse_response(&out) {
            if r.status == status::OK {
                return (Some(("invalid-frame-executed", format!("{:?} frame was answered with success: {}", class, r.short()))), fp.0);
            }
        }
        if let Some(p) = ring.probe() {
            if p.items > 0 {
                return (Some(("invalid-frame-executed", format!("{:?} frame changed the store ({} items)", class, p.items))), fp.0);
            }
        }
    }
    if class == FrameClass::TooLarge {
        if let Some(p) = ring.probe() {
            if p.items > 0 {
                return (Some(("oversized-frame-executed", format!("a frame announcing {} > limit {} bytes changed the store", req.body_len(), knobs.item_limit))), fp.0);
            }
        }
    }
    // the caller-owned decode buffer stays bounded whatever the header announces
    let bound = knobs.item_limit as usize + 24 + 4096 + bytes.len();
    if ring.max_buffer_capacity > bound {
        return (Some(("decode-buffer-unbounded", format!("decode buffer capacity {} after a header announcing body {} (limit {}, bound {})", ring.max_buffer_capacity, req.body_len(), knobs.item_limit, bound))), fp.0);
    }
    (None, fp.0)
}

fn run_grid(opcode: u8, limit: u32, seed: u64, out: &mut Outcome) -> Option<GridFail> {
    let mut knobs = Knobs::default_for(seed);
    knobs.item_limit = limit;
    knobs.shards = 2;
    let mut fp = Fp::new();
    let mut n = 0u64;
    for &kl in KEY_LENS.iter() {
        for &el in EXTRAS_LENS.iter() {
            for bl in body_lens(kl, el, limit) {
                for (magic, dt) in [(0x80u8, 0u8), (0x80, 1), (0x81, 0), (0x00, 0)] {
                    for cas in [0u64, u64::MAX] {
                        // bytes available: header only, part of the body, whole body (capped), body + a following noop
                        let whole = (bl as usize).min(limit as usize + 64).min(70_000);
                        for avail_kind in 0..4 {
                            let avail = match avail_kind {
                                0 => 0,
                                1 => whole / 2,
                                _ => whole,
                            };
                            if avail_kind == 1 && whole < 2 {
                                continue;
                            }
                            if (magic != 0x80 || dt != 0) && (avail_kind == 1 || cas != 0) {
                                continue;
                            }
                            let (req, mut bytes) = grid_frame(opcode, kl, el, bl, magic, dt, cas, avail);
                            if avail_kind == 3 {
                                bytes.extend_from_slice(&Request::bare(op::NOOP).encode());
                            }
                            let chunks: Vec<usize> = match (n % 3, avail_kind) {
                                (0, _) => vec![],
                                (1, _) => vec![24],
                                _ => vec![7, 17, 1 + avail / 3],
                            };
                            let (bad, f) = judge_h(&knobs, &req, &bytes, &chunks);
                            fp.u64(f);
                            n += 1;
                            if let Some((clause, detail)) = bad {
                                return Some(GridFail {
                                    detail: format!("opcode {:#04x} key_len {} extras_len {} body_len {} magic {:#04x} data_type {} cas {} ({} body bytes present, chunks {:?}): {}", opcode, kl, el, bl, magic, dt, cas, avail, chunks, detail),
                                    clause,
                                    bytes,
                                    limit,
                                    chunks,
                                });
                            }
                        }
                    }
                }
            }
        }
    }
    out.count("grid_headers", n);
    out.fp = fp.0;
    None
}

/// A byzantine stream: valid frames mutated, random bytes, extreme lengths.
fn gen_byzantine(run_seed: u64, _tier: Tier) -> (Knobs, Vec<u8>, Vec<usize>, Vec<Vec<u8>>) {
    let mut rng = Rng::sub(run_seed, "byz");
    let mut knobs = Knobs::default_for(run_seed);
    knobs.item_limit = *rng.pick(&[1024u32, 2048, 16 * 1024, 65536]);
    knobs.timeout_secs = 5;
    knobs.conn_limit = 4;
    knobs.shards = 4;
    let mut p = Profile::base();
    p.max_value = 30;
    p.big_value_pct = 0;
    p.numeric_pct = 50;
    p.odd_numeric_pct = 30;
    let keys = gen_keys(&mut rng, 3);
    let empty = crate::model::Model::new(u32::MAX, LossMode::Strict);
    let mut stream = Vec::new();
    let n = rng.range(1, 10);
    for i in 0..n {
        match rng.below(10) {
            0 => {
                // pure noise
                let l = rng.range(1, 80) as usize;
                stream.extend(rng.bytes(l));
            }
            1 | 2 => {
                // a valid frame with one header field replaced by an extreme
                let mut r = gen_any_request(&mut rng, &keys, &p, true, 20).materialise(&empty);
                match rng.below(6) {
                    0 => r.body_len_override = Some(*rng.pick(&[0xffff_ffffu32, 0x7fff_ffff, knobs.item_limit + 1, 0])),
                    1 => r.key_len_override = Some(*rng.pick(&[65535u16, 251, 0])),
                    2 => r.extras_len_override = Some(if rng.chance(1, 2) { rng.below(25) as u8 } else { *rng.pick(&[255u8, 21, 3]) }),
                    3 => r.cas = u64::MAX,
                    4 => r.opcode = rng.next() as u8,
                    _ => r.data_type = 1,
                }
                r.opaque = 0xb000 + i as u32;
                stream.extend(r.encode());
            }
            4 => {
                // a short, self-consistent frame of any opcode: few extras, a short key and
                // a body of exactly (or just above) their sum - shorter than the fixed
                // extras block the opcode's parser reads
                let el = rng.below(25) as u8;
                let kl = rng.below(4) as u16;
                let extra = rng.below(3) as u32;
                let mut r = Request::new(if rng.chance(1, 2) { rng.below(0x25) as u8 } else { *rng.pick(&[op::FLUSH, op::FLUSHQ, op::SET, op::ADD, op::INCR, op::DECR, op::TOUCH, op::GAT]) });
                r.extras = (0..el).map(|i| [0u8, 0, 0, 1, 0xff, 0xff, 0xff, 0xff][i as usize % 8]).collect();
                r.key = vec![b'k'; kl as usize];
                r.value = vec![b'7'; extra as usize];
                r.opaque = 0xb000 + i as u32;
                stream.extend(r.encode());
            }
            5 => {
                // a store, then a flush whose delay is an extreme of the field
                let key = keys[rng.usize(keys.len())].clone();
                let mut st = SymReq::store(op::SET, &key, crate::scenario::Val::Bytes(b"x".to_vec()), 1, *rng.pick(&[0u32, 5, 0xffff_fff0]), crate::scenario::CasSel::Zero);
                st.opaque = 0xb100 + i as u32;
                stream.extend(st.materialise(&empty).encode());
                let mut fl = SymReq::flush(*rng.pick(&[op::FLUSH, op::FLUSHQ]), Some(*rng.pick(&[u32::MAX, u32::MAX - 1, 0x8000_0000, 0xffff_fff0])));
                fl.opaque = 0xb200 + i as u32;
                stream.extend(fl.materialise(&empty).encode());
            }
            3 => {
                // counters with extreme operands
                let key = keys[rng.usize(keys.len())].clone();
                let mut r = SymReq::counter(*rng.pick(&[op::INCR, op::DECR, op::INCRQ]), &key, *rng.pick(&[u64::MAX, 1, 1 << 63]), *rng.pick(&[u64::MAX, 0]), *rng.pick(&[0u32, 0xffff_ffff, 1]), crate::scenario::CasSel::Literal(*rng.pick(&[0u64, u64::MAX, 1])));
                r.opaque = 0xb000 + i as u32;
                stream.extend(r.materialise(&empty).encode());
            }
            _ => {
                let mut r = gen_any_request(&mut rng, &keys, &p, true, 10);
                r.opaque = 0xb000 + i as u32;
                let mut bytes = r.materialise(&empty).encode();
                // flip a byte now and then
                if rng.chance(1, 3) && !bytes.is_empty() {
                    let pos = rng.usize(bytes.len());
                    bytes[pos] ^= 1 << rng.below(8);
                }
                stream.extend(bytes);
            }
        }
    }
    let style = *rng.pick(&[SegStyle::OneShot, SegStyle::RandomCuts, SegStyle::ByteAtATime, SegStyle::RandomCuts]);
    let style = if style == SegStyle::ByteAtATime && stream.len() > 300 { SegStyle::RandomCuts } else { style };
    let cuts = cut_sizes(&mut rng, stream.len(), style);
    (knobs, stream, cuts, keys)
}

fn run_byzantine(knobs: &Knobs, stream: &[u8], cuts: &[usize], keys: &[Vec<u8>], keep_log: bool) -> (Vec<Violation>, Outcome) {
    let mut out = Outcome::default();
    let mut viols = Vec::new();
    let base = alloc::reset();
    {
        let mut ring = RingN::new(knobs);
        let mut d = Driver::new(&mut ring, knobs.item_limit, knobs.timeout_secs, LossMode::Strict).with_slack(1);
        d.keep_log = keep_log;
        d.step(&Ev::Connect { c: 0 });
        d.step(&Ev::Raw { c: 0, bytes: stream.to_vec() });
        for (i, &c) in cuts.iter().enumerate() {
            d.step(&Ev::Deliver { c: 0, n: c as u32 });
            // now and then the clock ticks between two segments (items age before what follows)
            if (stream.len() + i) % 3 == 0 {
                d.step(&Ev::Advance { ms: 1100 });
            }
        }
        d.step(&Ev::Deliver { c: 0, n: u32::MAX });
        // the byzantine client goes silent; the server must not be stuck on it
        d.step(&Ev::Advance { ms: 2 * knobs.timeout_secs as u64 * 1000 + 500 });
        let st = d.exec.conn_state(0);
        if !st.server_closed {
            viols.push(Violation::new("C10", "connection-never-released", format!("after {} bytes of arbitrary input and twice the idle timeout the connection is still held", stream.len())));
        }
        // the server still serves a well-behaved client (whatever the valid frames
        // inside the byzantine stream stored is not the model's business)
        d.model.wild = true;
        d.step(&Ev::Connect { c: 1 });
        let mut r = SymReq::bare(op::NOOP);
        r.opaque = 0x600d;
        d.step(&Ev::Send { c: 1, req: r });
        for (i, k) in keys.iter().enumerate() {
            let mut g = SymReq::get(op::GETK, k);
            g.opaque = 0x600e + i as u32;
            d.step(&Ev::Send { c: 1, req: g });
        }
        d.step(&Ev::Deliver { c: 1, n: u32::MAX });
        d.finish();
        let answered = d.conns.get(1).map(|c| c.responses.len()).unwrap_or(0);
        if answered != 1 + keys.len() {
            viols.push(Violation::new("C10", "server-unresponsive-after-garbage", format!("a fresh connection got {} of {} answers after the byzantine stream", answered, 1 + keys.len())));
        }
        for v in std::mem::take(&mut d.violations) {
            if v.prop == "C10" {
                viols.push(v);
            } else {
                *out.out_of_scope.entry(v.signature()).or_insert(0) += 1;
            }
        }
        out.stats = d.stats.clone();
        out.fp = d.fingerprint();
        out.log = std::mem::take(&mut d.log);
    }
    let (peak, max_one) = alloc::window(base);
    // what the server may buffer for a connection: item limit plus a small
    // constant; BytesMut doubles, the skip buffer is 64 KiB, the harness holds the stream
    let bound = 2 * (knobs.item_limit as usize + 4096) + 64 * 1024 + 4 * stream.len() + 256 * 1024;
    if max_one > 2 * (knobs.item_limit as usize + 4096) + 64 * 1024 + stream.len() {
        viols.push(Violation::new("C10", "length-driven-allocation", format!("a single allocation of {} bytes while serving a {}-byte stream (item limit {})", max_one, stream.len(), knobs.item_limit)));
    } else if peak > bound {
        viols.push(Violation::new("C10", "memory-bloat", format!("peak live allocation {} bytes above baseline while serving a {}-byte stream (item limit {}, bound {})", peak, stream.len(), knobs.item_limit, bound)));
    }
    out.count("max_single_allocation_sum", max_one as u64);
    out.nontrivial = stream.len() >= 24;
    (viols, out)
}

/// "The memory buffered for a connection never exceeds the item size limit plus a small
/// constant, whatever lengths a header announces": a header announcing `body` > limit bytes
/// whose body really arrives, `chunk` bytes at a time, on the whole server (ring N: the real
/// connection, decoder and skip path). Everything the server allocates happens on this
/// thread; the stream itself is allocated before the measurement starts.
fn run_streamed_oversized(limit: u32, body: usize, chunk: usize, opcode: u8, seed: u64) -> (Vec<Violation>, Outcome) {
    let mut out = Outcome::default();
    let mut viols = Vec::new();
    let mut knobs = Knobs::default_for(seed);
    knobs.item_limit = limit;
    knobs.conn_limit = 4;
    knobs.timeout_secs = 60;
    let mut r = Request::new(opcode);
    r.opaque = 0x0b16_0001;
    r.key = b"big".to_vec();
    if matches!(op_info(opcode).kind, crate::wire::Kind::Set | crate::wire::Kind::Add | crate::wire::Kind::Replace) {
        r.extras = vec![0; 8];
    }
    r.value = vec![0x42; body.saturating_sub(r.extras.len() + r.key.len())];
    let mut bytes = r.encode();
    let mut n = Request::bare(op::NOOP);
    n.opaque = 0x0b16_0002;
    bytes.extend_from_slice(&n.encode());
    let mut fp = Fp::new();
    let peak;
    {
        let mut ring = RingN::new(&knobs);
        ring.connect(0);
        // warm up: one ordinary request, so that lazily created buffers exist already
        ring.deliver(0, &Request::bare(op::NOOP).encode());
        let _ = ring.take_output(0);
        let base = alloc::reset();
        let mut got = Vec::new();
        for piece in bytes.chunks(chunk.max(1)) {
            ring.deliver(0, piece);
            got.extend(ring.take_output(0));
        }
        peak = alloc::window(base).0;
        for p in ring.take_panics() {
            viols.push(Violation::new("C10", "panic", format!("panic inside the server: {}", p)));
        }
        fp.bytes(&got);
        // the oversized request is refused and the noop behind it answered
        let mut rest = &got[..];
        let mut statuses = Vec::new();
        while let Ok(Some((resp, used))) = parse_response(rest) {
            statuses.push((resp.opcode, resp.status));
            rest = &rest[used..];
        }
        if statuses != vec![(opcode, status::TOO_LARGE), (op::NOOP, status::OK)] && !ring.conn_state(0).server_closed {
            *out.out_of_scope.entry("C13:oversized-stream-not-refused-and-skipped".to_string()).or_insert(0) += 1;
        }
    }
    // limit + the 4 KiB initial buffer + chunks in the simulated socket + the constant the skip
    // path costs (its 64 KiB scratch buffer, held twice for a moment) + allocator slack.
    // Measured on the unchanged tree: 132 KiB whatever the limit, the chunk size and the
    // announced length; a connection that buffers the body grows by the announced length.
    let bound = limit as usize + 4096 + 2 * chunk + 160 * 1024;
    out.count("streamed_oversized_runs", 1);
    if std::env::var("VERIF_DEBUG").is_ok() {
        eprintln!("[streamed-oversized] limit={} body={} chunk={} opcode={:#04x} peak={} bound={}", limit, body, chunk, opcode, peak, bound);
    }
    if peak > bound && std::env::var("VERIF_BOUND_OFF").is_err() {
        viols.push(Violation::new(
            "C10",
            "connection-buffers-an-oversized-body",
            format!("while a request of opcode {:#04x} announcing {} bytes (item size limit {}) arrived {} bytes at a time, the memory held for the connection grew by {} bytes (bound: limit + initial buffer + two chunks + 160 KiB = {})", opcode, body, limit, chunk, peak, bound),
        ));
    }
    out.counters.insert("streamed_oversized_peak_last".into(), peak as u64);
    out.fp = fp.0;
    out.nontrivial = true;
    (viols, out)
}

impl Check for C10 {
    fn id(&self) -> &'static str {
        "C10"
    }
    fn runs(&self, tier: Tier) -> u64 {
        match tier {
            Tier::Quick => 256 + 800_000,
            Tier::Thorough => 4 * 256 + 20_000_000,
        }
    }
    fn generate(&self, run_seed: u64, index: u64, tier: Tier) -> Case {
        let grid_runs = match tier {
            Tier::Quick => 256,
            Tier::Thorough => 4 * 256,
        };
        if index < grid_runs {
            let limit = [1024u32, 4096, 65536, 1024 * 1024][(index / 256) as usize % 4];
            return Case {
                kind: "grid".into(),
                data: json!({"opcode": index % 256, "limit": limit, "seed": run_seed}),
            };
        }
        if (index - grid_runs) % 2000 == 7 {
            let mut rng = Rng::sub(run_seed, "streamed-oversized");
            let limit = *rng.pick(&[1024u32, 2048, 4096]);
            let body = *rng.pick(&[512usize * 1024, 1024 * 1024, 2 * 1024 * 1024]) + rng.range(0, 999) as usize;
            let chunk = *rng.pick(&[4096usize, 8192, 16384]);
            let opcode = *rng.pick(&[op::SET, op::SET, op::APPEND, op::GET, op::NOOP, op::INCR, op::SETQ]);
            return Case {
                kind: "stream-oversized".into(),
                data: json!({"limit": limit, "body": body, "chunk": chunk, "opcode": opcode, "seed": run_seed}),
            };
        }
        let (knobs, stream, cuts, keys) = gen_byzantine(run_seed, tier);
        Case {
            kind: "byz".into(),
            data: json!({"knobs": knobs.to_json(), "stream": wire::hex(&stream), "cuts": cuts, "keys": keys.iter().map(|k| wire::hex(k)).collect::<Vec<_>>()}),
        }
    }
    fn execute(&self, case: &Case) -> Outcome {
        let mut out = Outcome::default();
        match case.kind.as_str() {
            "grid" => {
                let opcode = case.data["opcode"].as_u64().unwrap_or(0) as u8;
                let limit = case.data["limit"].as_u64().unwrap_or(1024) as u32;
                let seed = case.data["seed"].as_u64().unwrap_or(0);
                if let Some(f) = run_grid(opcode, limit, seed, &mut out) {
                    let v = Violation::new("C10", f.clause, f.detail.clone());
                    out.counters.insert("fail_len".into(), f.bytes.len() as u64);
                    out.log.push(format!("frame={} limit={} chunks={:?}", wire::hex_short(&f.bytes, 64), f.limit, f.chunks));
                    out.cells.insert(format!("FAIL:{}:{}:{:?}", wire::hex(&f.bytes[..f.bytes.len().min(24)]), f.bytes.len(), f.chunks));
                    out.all.push(v.clone());
                    out.violations.push(v);
                }
                out.nontrivial = true;
                out.count("ring_H_grid_runs", 1);
            }
            "stream-oversized" => {
                let g = |k: &str| case.data[k].as_u64().unwrap_or(0);
                let (viols, o) = run_streamed_oversized(g("limit") as u32, g("body") as usize, g("chunk") as usize, g("opcode") as u8, g("seed"));
                out = o;
                out.absorb(viols, &|v| v.prop == "C10");
            }
            "frame" => {
                // one explicit frame on ring H (what a grid failure is reduced to)
                let bytes = wire::unhex(case.data["bytes"].as_str().unwrap_or("")).unwrap_or_default();
                let limit = case.data["limit"].as_u64().unwrap_or(1024) as u32;
                let chunks: Vec<usize> = case.data["chunks"].as_array().map(|a| a.iter().filter_map(|v| v.as_u64()).map(|v| v as usize).collect()).unwrap_or_default();
                let mut knobs = Knobs::default_for(1);
                knobs.item_limit = limit;
                knobs.shards = 2;
                // re-derive the header's view
                let mut req = Request::new(bytes.get(1).copied().unwrap_or(0));
                if bytes.len() >= 24 {
                    req.magic = bytes[0];
                    req.key_len_override = Some(u16::from_be_bytes([bytes[2], bytes[3]]));
                    req.extras_len_override = Some(bytes[4]);
                    req.data_type = bytes[5];
                    req.body_len_override = Some(u32::from_be_bytes([bytes[8], bytes[9], bytes[10], bytes[11]]));
                }
                let (bad, f) = judge_h(&knobs, &req, &bytes, &chunks);
                out.fp = f;
                out.nontrivial = true;
                if let Some((clause, detail)) = bad {
                    let v = Violation::new("C10", clause, detail);
                    out.all.push(v.clone());
                    out.violations.push(v);
                }
            }
            _ => {
                let knobs = Knobs::from_json(&case.data["knobs"]).unwrap_or_else(|| {
                    eprintln!("harness error: bad C10 case");
                    std::process::exit(2)
                });
                let stream = wire::unhex(case.data["stream"].as_str().unwrap_or("")).unwrap_or_default();
                let cuts: Vec<usize> = case.data["cuts"].as_array().map(|a| a.iter().filter_map(|v| v.as_u64()).map(|v| v as usize).collect()).unwrap_or_default();
                let keys: Vec<Vec<u8>> = case.data["keys"].as_array().map(|a| a.iter().filter_map(|v| v.as_str()).filter_map(wire::unhex).collect()).unwrap_or_default();
                let (viols, o) = run_byzantine(&knobs, &stream, &cuts, &keys, case.data.get("log").is_some());
                out = o;
                out.count("ring_N_byzantine_runs", 1);
                out.absorb(viols, &|v| v.prop == "C10");
            }
        }
        out
    }
    fn shrink(&self, case: &Case) -> Vec<Case> {
        match case.kind.as_str() {
            "stream-oversized" => {
                // a smaller announced body, larger pieces
                let mut c = Vec::new();
                let body = case.data["body"].as_u64().unwrap_or(0);
                let chunk = case.data["chunk"].as_u64().unwrap_or(4096);
                for b in [body / 2, body * 3 / 4] {
                    if b > 300 * 1024 {
                        let mut d = case.data.clone();
                        d["body"] = json!(b);
                        c.push(Case { kind: case.kind.clone(), data: d });
                    }
                }
                if chunk < 16384 {
                    let mut d = case.data.clone();
                    d["chunk"] = json!(16384);
                    c.push(Case { kind: case.kind.clone(), data: d });
                }
                c
            }
            "grid" => {
                // reduce to the single failing frame
                let out = self.execute(case);
                for c in out.cells.iter() {
                    if c.starts_with("FAIL:") {
                        // re-run to get the full bytes
                        let opcode = case.data["opcode"].as_u64().unwrap_or(0) as u8;
                        let limit = case.data["limit"].as_u64().unwrap_or(1024) as u32;
                        let seed = case.data["seed"].as_u64().unwrap_or(0);
                        let mut o2 = Outcome::default();
                        if let Some(f) = run_grid(opcode, limit, seed, &mut o2) {
                            return vec![Case {
                                kind: "frame".into(),
                                data: json!({"bytes": wire::hex(&f.bytes), "limit": f.limit, "chunks": f.chunks}),
                            }];
                        }
                    }
                }
                vec![]
            }
            "frame" => {
                let bytes = wire::unhex(case.data["bytes"].as_str().unwrap_or("")).unwrap_or_default();
                let mut c = Vec::new();
                if bytes.len() > 24 {
                    for keep in [24usize, 24 + (bytes.len() - 24) / 2] {
                        c.push(Case {
                            kind: "frame".into(),
                            data: json!({"bytes": wire::hex(&bytes[..keep]), "limit": case.data["limit"], "chunks": []}),
                        });
                    }
                }
                c.push(Case {
                    kind: "frame".into(),
                    data: json!({"bytes": case.data["bytes"], "limit": case.data["limit"], "chunks": []}),
                });
                c
            }
            _ => {
                let stream = wire::unhex(case.data["stream"].as_str().unwrap_or("")).unwrap_or_default();
                let mut c = Vec::new();
                let n = stream.len();
                let mut chunk = n / 2;
                while chunk >= 1 && c.len() < 200 {
                    let mut start = n.saturating_sub(chunk);
                    loop {
                        let mut s = stream.clone();
                        let end = (start + chunk).min(s.len());
                        s.drain(start..end);
                        c.push(Case {
                            kind: "byz".into(),
                            data: json!({"knobs": case.data["knobs"], "stream": wire::hex(&s), "cuts": [], "keys": case.data["keys"]}),
                        });
                        if start == 0 || c.len() >= 200 {
                            break;
                        }
                        start = start.saturating_sub(chunk);
                    }
                    if chunk == 1 {
                        break;
                    }
                    chunk /= 2;
                }
                c.push(Case {
                    kind: "byz".into(),
                    data: json!({"knobs": case.data["knobs"], "stream": case.data["stream"], "cuts": [], "keys": case.data["keys"]}),
                });
                c
            }
        }
    }
    fn rule(&self) -> String {
        "ring H grid (the first 256 runs, x4 item limits in thorough): for one opcode 0..255 per run the full boundary grid key_len {0,1,2,3,8,250,251,65535} x extras_len {0,1,2,3,4,5,7,8,9,12,16,19,20,21,255} x body_len {0,3,4,7,8,19,20, key+extras-1, key+extras, +1, +8, limit-1, limit, limit+1, 2x, 2^24-1, 2^31-1, 2^32-1} x (magic, data type) {ok, dt=1, 0x81, 0x00} x cas {0, 2^64-1} x bytes present {header only, half the body, whole body, body + a following noop}, fed one-shot / header-first / in small chunks to the real decoder; every decoded request is executed and encoded. Ring N byzantine runs: streams of 1-10 pieces (noise, valid frames with one field replaced by an extreme, short self-consistent frames of any opcode with 0-24 extras bytes, counters with extreme operands, bit-flipped valid frames) with random segmentation against the whole server, then silence past the idle timeout and a well-behaved client. Oracle: no panic (overflow checks on), every delivery reaches quiescence within the poll budget, frames the listed rules call invalid are never executed (no success answer, store unchanged), the decode buffer capacity <= limit + 24 + 4096 + bytes fed (ring H), no single allocation > 2*(limit+4 KiB)+64 KiB+stream (counting allocator, ring N), the byzantine connection is released and the server still serves. non-trivial: every grid run; byzantine streams of >= 24 bytes; distinct = distinct digests of response bytes / event logs".into()
    }
    fn assumptions(&self) -> Vec<String> {
        vec![
            "allocation failure is not injected (it aborts the process in Rust); the counting allocator observes requested sizes instead".into(),
            "the memory bound tolerates BytesMut's doubling growth and the 64 KiB skip buffer (factor measured on the unchanged tree); it still catches any allocation proportional to an announced length".into(),
        ]
    }
    fn components(&self) -> Value {
        json!({
            "real": ["binary_codec (header_valid, request_valid, reserve guard, all body parsers)", "handler + store (executed for every decoded request)", "binary_connection incl. skip_bytes (ring N)", "client_handler, memc_tcp (ring N)"],
            "stub": ["TcpStream/TcpListener (ring N)", "Timer (ring H)"],
        })
    }
    fn sample(&self, case: &Case) -> Value {
        let mut v = case.to_json();
        if let Some(s) = v["data"].get("stream").and_then(|s| s.as_str()) {
            if s.len() > 400 {
                let t = format!("{}...({} hex chars)", &s[..400], s.len());
                v["data"]["stream"] = json!(t);
            }
        }
        v
    }
}

pub fn checks() -> Vec<Box<dyn Check>> {
    vec![Box::new(C10)]
}

#[allow(dead_code)]
fn unused(_: Scenario) {}
