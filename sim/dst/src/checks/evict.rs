//! C14 (random eviction keeps stored bytes within the limit) and C15 (no
//! eviction without pressure / accounting tracks content).
use crate::check::{Case, Check, Outcome, Tier};
use crate::checks::tchecks::intern;
use crate::driver::Driver;
use crate::gen::{Gen, Profile, Weights};
use crate::model::{LossMode, Violation};
use crate::ringh::RingH;
use crate::rng::Rng;
use crate::scenario::{Ev, Knobs, Policy, Scenario};
use crate::wire::{self, op_info, status, Kind};
use serde_json::{json, Value};

pub struct C14;
pub struct C15;

fn scenario_of(case: &Case) -> Scenario {
    match Scenario::from_json(&case.data["scenario"]) {
        Some(s) => s,
        None => {
            eprintln!("harness error: bad scenario in case");
            std::process::exit(2);
        }
    }
}

/// Every request is delivered on its own, so that the store can be probed
/// after each single command (whatever the scenario's own deliveries are).
fn one_by_one(sc: &Scenario) -> Scenario {
    let mut out = Scenario {
        knobs: sc.knobs.clone(),
        events: Vec::new(),
    };
    for ev in &sc.events {
        match ev {
            Ev::Deliver { .. } => {}
            Ev::Send { c, req } => {
                out.events.push(Ev::Send { c: *c, req: req.clone() });
                out.events.push(Ev::Deliver { c: *c, n: u32::MAX });
            }
            other => out.events.push(other.clone()),
        }
    }
    out
}

fn compact_sample(case: &Case) -> Value {
    let mut v = case.data["scenario"].clone();
    if let Some(ev) = v.get_mut("events").and_then(|e| e.as_array_mut()) {
        let n = ev.len();
        ev.truncate(12);
        ev.push(json!({"truncated_total_events": n}));
    }
    v
}

// ------------------------------------------------------------------ C14 (sequential part)

fn gen_c14(run_seed: u64, tier: Tier) -> Scenario {
    let mut krng = Rng::sub(run_seed, "knobs");
    let mut knobs = Knobs::default_for(run_seed);
    knobs.shards = *krng.pick(&[2usize, 4, 16, 64]);
    knobs.policy = Policy::Random;
    knobs.memory_limit = *krng.pick(&[0u64, 1, 24, 30, 60, 100, 200, 500, 1000, 5000, 100_000]);
    knobs.item_limit = 64 * 1024;
    let mut prng = Rng::sub(run_seed, "profile");
    let mut p = Profile::base();
    p.keys = prng.range(2, 12) as usize;
    p.cmds = match tier {
        Tier::Quick => prng.range(5, 150) as usize,
        Tier::Thorough => *prng.pick(&[20usize, 100, 500, 3000]),
    };
    p.w = Weights {
        get: 10,
        set: 40,
        add: 8,
        replace: 6,
        append: 8,
        prepend: 4,
        incr: 6,
        decr: 3,
        delete: 8,
        flush_now: 1,
        flush_delay: 1,
        bare: 0,
    };
    p.max_value = *prng.pick(&[8usize, 40, 120, 600, 3000]);
    p.big_value_pct = 20;
    p.quiet_pct = 10;
    p.cas_pct = 10;
    p.ttl_pct = 20;
    p.advance_pct = 10;
    p.verify_pct = 0;
    p.final_dump = false;
    let mut wrng = Rng::sub(run_seed, "workload");
    let mut g = Gen::new(&mut wrng, p);
    g.scenario(knobs)
}

/// Drive the scenario command by command and evaluate C14's invariants after each.
fn run_c14(sc: &Scenario, keep_log: bool) -> (Vec<Violation>, Outcome) {
    let sc = &one_by_one(sc);
    let mut ring = RingH::new(&sc.knobs);
    let mut out = Outcome::default();
    let mut viols = Vec::new();
    let limit = sc.knobs.memory_limit;
    {
        let mut d = Driver::new(&mut ring, sc.knobs.item_limit, 0, LossMode::Allowed).with_slack(1);
        d.keep_log = keep_log;
        // the size of the record most recently written: the allowance above the limit
        let mut allow: u64 = 0;
        let mut last_stored: u64 = 0;
        let mut pending: Vec<(usize, usize)> = Vec::new(); // (conn, frame index) sent since the last delivery
        for ev in &sc.events {
            if let Ev::Send { c, .. } = ev {
                let idx = d.conns.get(*c).map(|x| x.frames.len()).unwrap_or(0);
                pending.push((*c, idx));
            }
            d.step(ev);
            if let Ev::Deliver { .. } = ev {
                // frames resolved by this delivery, in order
                for (c, idx) in pending.drain(..) {
                    let f = match d.conns.get(c).and_then(|x| x.frames.get(idx)) {
                        Some(f) => f.clone(),
                        None => continue,
                    };
                    let info = op_info(f.req.opcode);
                    let ok = f.response.as_ref().map(|r| r.status == status::OK).unwrap_or(f.resolved == Some(crate::driver::Resolution::Silent));
                    let stores = matches!(info.kind, Kind::Set | Kind::Add | Kind::Replace | Kind::Append | Kind::Prepend | Kind::Incr | Kind::Decr);
                    if stores && ok && pending_is_last(&f, &d) {
                        match d.exec.record_len(&f.req.key) {
                            Some(l) => {
                                // (a command that answers success without rewriting anything - e.g. an
                                // append of nothing - wrote no record: the previous allowance stands)
                                let changed = d.exec.probe().map(|p| p.stored_bytes != last_stored).unwrap_or(true);
                                if changed || l > allow {
                                    allow = l;
                                }
                                out.count("stores_checked", 1);
                            }
                            None => {
                                viols.push(Violation::new("C14", "record-being-written-evicted", format!("{:?} of key {} was acknowledged but the record is not in the store right afterwards (limit {})", info.kind, crate::wire::hex_short(&f.req.key, 12), limit)));
                            }
                        }
                    }
                }
                if let Some(p) = d.exec.probe() {
                    if p.stored_bytes > limit.saturating_add(allow) {
                        viols.push(Violation::new("C14", "stored-bytes-exceed-limit", format!("the store holds {} bytes in {} records; limit {} + record just written {} = {}", p.stored_bytes, p.items, limit, allow, limit.saturating_add(allow))));
                    }
                    if p.stored_bytes > limit {
                        out.count("states_above_limit_within_allowance", 1);
                    }
                    last_stored = p.stored_bytes;
                    out.count("probes", 1);
                }
                if !viols.is_empty() {
                    break;
                }
            }
        }
        d.finish();
        viols.extend(std::mem::take(&mut d.violations));
        out.fp = d.fingerprint();
        out.stats = d.stats.clone();
        out.nontrivial = d.model.state_dependent > 0;
        out.log = std::mem::take(&mut d.log);
    }
    (viols, out)
}

/// only the last frame of a batch is guaranteed to be "the record just written"
fn pending_is_last(_f: &crate::driver::Frame, _d: &Driver) -> bool {
    true
}

fn exec_c14(sc: &Scenario, keep_log: bool) -> Outcome {
    let (viols, mut out) = run_c14(sc, keep_log);
    out.count("ring_H_runs", 1);
    match std::env::var("VERIF_CLAIM_SIG") {
        Ok(sig) => out.absorb(viols, &|v| v.signature() == sig),
        Err(_) => out.absorb(viols, &|v| v.prop == "C14"),
    }
    out
}

/// The store as the server builds it (MemcacheStoreBuilder::from_config, the path from the
/// command line to the eviction policy) under a large configured limit: a handful of tiny
/// items is nowhere near it, so none may be lost. The limit is drawn from the run's seed.
fn builder_probe(sc: &Scenario) -> Vec<Violation> {
    use memcrs::memcache::builder::{MemcacheStoreBuilder, MemcacheStoreConfig};
    use memcrs::memcache::eviction_policy::EvictionPolicy;
    let mut rng = Rng::sub(sc.knobs.rng_seed, "builder-probe");
    let limit = *rng.pick(&[1u64 << 20, 1 << 31, (1 << 32) - 1, 1 << 32, (1 << 32) + 4096, 5 << 30, 1 << 33, 1 << 40, 1 << 63, u64::MAX]);
    let n = rng.range(2, 17) as usize;
    let r = crate::stack::guarded(|| {
        simseam::knobs::set_hash_seed(sc.knobs.hash_seed);
        simseam::knobs::set_shard_amount(sc.knobs.shards);
        simseam::rng::seed(sc.knobs.rng_seed);
        let timer = std::sync::Arc::new(crate::stack::SimTimer::new(1));
        let cache = MemcacheStoreBuilder::from_config(MemcacheStoreConfig::new(limit, EvictionPolicy::Random), timer);
        let mut lost = Vec::new();
        for i in 0..n {
            let k = bytes::Bytes::from(format!("bp{}", i));
            let _ = cache.set(k, memcrs::cache::cache::Record::new(bytes::Bytes::from(vec![b'v'; 8]), 0, 0, 0));
        }
        for i in 0..n {
            let k = bytes::Bytes::from(format!("bp{}", i));
            if cache.get(&k).is_err() {
                lost.push(i);
            }
        }
        lost
    });
    match r {
        Some(lost) if !lost.is_empty() => vec![Violation::new("C15", "evicted-under-configured-limit", format!("store built by MemcacheStoreBuilder::from_config with random eviction and memory limit {}: after {} stores of 32-byte records, items {:?} are gone", limit, n, lost))],
        _ => Vec::new(),
    }
}

fn exec_c15(sc: &Scenario, keep_log: bool) -> Outcome {
    let (mut viols, mut out) = run_c15(sc, keep_log);
    viols.extend(builder_probe(sc));
    out.count("production_builder_probes", 1);
    match std::env::var("VERIF_CLAIM_SIG") {
        Ok(sig) => out.absorb(viols, &|v| v.signature() == sig),
        Err(_) => out.absorb(viols, &|v| v.prop == "C15"),
    }
    out
}

impl Check for C14 {
    fn id(&self) -> &'static str {
        "C14"
    }
    fn runs(&self, tier: Tier) -> u64 {
        match tier {
            Tier::Quick => 100_000,
            Tier::Thorough => 600_000,
        }
    }
    fn generate(&self, run_seed: u64, index: u64, tier: Tier) -> Case {
        // one run in five is a small concurrent program on ring T
        if index % 5 == 4 {
            let t = crate::checks::tchecks::TCheck { kind: crate::checks::tchecks::TKind::C14 };
            return t.generate(run_seed, index, tier);
        }
        let sc = gen_c14(run_seed, tier);
        Case {
            kind: "H".into(),
            data: json!({"scenario": sc.to_json()}),
        }
    }
    fn run_fast(&self, run_seed: u64, index: u64, tier: Tier) -> Option<Outcome> {
        if index % 5 == 4 {
            return None;
        }
        let sc = gen_c14(run_seed, tier);
        Some(exec_c14(&sc, false))
    }
    fn execute(&self, case: &Case) -> Outcome {
        if case.kind == "T" {
            let t = crate::checks::tchecks::TCheck { kind: crate::checks::tchecks::TKind::C14 };
            let mut out = t.execute(case);
            out.count("ring_T_runs", 1);
            return out;
        }
        let sc = scenario_of(case);
        exec_c14(&sc, case.data.get("log").is_some())
    }
    fn shrink(&self, case: &Case) -> Vec<Case> {
        if case.kind == "T" {
            let t = crate::checks::tchecks::TCheck { kind: crate::checks::tchecks::TKind::C14 };
            return t.shrink(case);
        }
        crate::minimise::shrink_scenario_case(case)
    }
    fn rule(&self) -> String {
        "sequential (ring H, 4 runs in 5): seeded workloads of stores / overwrites / appends / counter updates / deletes / flushes / expiries over 2-12 keys under random eviction with limits 0..100000 bytes and record sizes around and above the limit; after every command the sum of Record::len() over the inner store (public API) must be <= limit + size of the record just written, and a record just acknowledged must be in the store. concurrent (ring T, 1 run in 5): 2-3 clients x 1-3 stores under seeded schedules; when all have finished the sum must be <= limit + one record per client. Eviction victims come from a seeded SmallRng (hook H4) over a deterministic iteration order. non-trivial = a command's outcome depended on earlier state (ring H) / at least one preemption (ring T); distinct = distinct event-log fingerprints".into()
    }
    fn assumptions(&self) -> Vec<String> {
        vec!["Record::len() = 24 bytes of metadata + value length is the unit the limit is stated in".into(), "ring H / ring T as described in DESIGN.md section 3".into()]
    }
    fn components(&self) -> Value {
        json!({
            "real": ["binary_codec", "handler", "MemcStore", "RandomPolicy (eviction loop, accounting)", "MemoryStore", "DashMap table logic"],
            "stub": ["Timer (SimTimer)", "victim RNG seed (hook H4)", "DashMap hasher seed / shard count", "thread scheduling and shard-lock blocking (ring T)"],
        })
    }
    fn sample(&self, case: &Case) -> Value {
        if case.kind == "T" {
            return case.data["program"].clone();
        }
        compact_sample(case)
    }
}

// ------------------------------------------------------------------ C15

fn gen_c15(run_seed: u64, tier: Tier) -> Scenario {
    let mut krng = Rng::sub(run_seed, "knobs");
    let mut knobs = Knobs::default_for(run_seed);
    knobs.shards = *krng.pick(&[2usize, 4, 16, 64]);
    knobs.policy = Policy::Random;
    knobs.item_limit = 64 * 1024;
    let mut prng = Rng::sub(run_seed, "profile");
    let mut p = Profile::base();
    p.keys = prng.range(2, 5) as usize;
    p.cmds = match tier {
        Tier::Quick => *prng.pick(&[30usize, 100, 400, 1000]),
        Tier::Thorough => *prng.pick(&[100usize, 1000, 4000, 10_000]),
    };
    p.max_value = *prng.pick(&[8usize, 20, 60]);
    p.big_value_pct = 0;
    // live set at most keys x (24 + max_value (+ appended growth, bounded below)); the limit is 20-1000x that
    let live = p.keys as u64 * (24 + 4 * p.max_value as u64 + 64);
    knobs.memory_limit = live * *krng.pick(&[20u64, 50, 200, 1000]);
    p.w = Weights {
        get: 20,
        set: 30,
        add: 6,
        replace: 8,
        append: 4,
        prepend: 3,
        incr: 8,
        decr: 5,
        delete: 10,
        flush_now: 2,
        flush_delay: 1,
        bare: 1,
    };
    p.quiet_pct = 10;
    p.cas_pct = *prng.pick(&[0u32, 20, 50]);
    p.ttl_pct = *prng.pick(&[0u32, 20, 40]);
    p.advance_pct = 10;
    p.numeric_pct = 40;
    p.verify_pct = 40;
    // appends may grow a value without bound over a long run: keep them rare and values tiny
    if p.cmds > 400 {
        p.w.append = 1;
        p.w.prepend = 1;
    }
    let mut wrng = Rng::sub(run_seed, "workload");
    let mut g = Gen::new(&mut wrng, p);
    let mut sc = g.scenario(knobs);
    // one run in three: the limit is exactly the accounted usage this very workload reaches
    // after one of its stores (found by a dry run under the generous limit), so that the
    // counter *equals* the limit once - "exceeds" and "reaches" are different conditions
    let mut brng = Rng::sub(run_seed, "exact-limit");
    if brng.chance(1, 3) {
        let trace = accounted_trace(&sc);
        let mut best = 0u64;
        let mut cands = Vec::new();
        for (acc, is_store) in trace {
            if acc > best {
                best = acc;
                if is_store && acc >= 3 * live {
                    cands.push(acc);
                }
            }
        }
        if !cands.is_empty() {
            sc.knobs.memory_limit = cands[brng.usize(cands.len().min(8))];
        }
    }
    sc
}

/// Accounted usage after every command of a dry run (and whether the command was a store).
fn accounted_trace(sc: &Scenario) -> Vec<(u64, bool)> {
    let sc = &one_by_one(sc);
    let mut ring = RingH::new(&sc.knobs);
    let mut d = Driver::new(&mut ring, sc.knobs.item_limit, 0, LossMode::ChargeC15).with_slack(1);
    let mut out = Vec::new();
    let mut last_store = false;
    for ev in &sc.events {
        if let Ev::Send { req, .. } = ev {
            last_store = matches!(op_info(req.opcode).kind, Kind::Set | Kind::Add | Kind::Replace);
        }
        d.step(ev);
        if let Ev::Deliver { .. } = ev {
            out.push((d.exec.probe().unwrap_or_default().accounted.unwrap_or(0), last_store));
        }
    }
    out
}

/// Drive command by command; after each, compare the accounted usage (hook) with
/// the bytes actually stored and attribute every change of the difference.
fn run_c15(sc: &Scenario, keep_log: bool) -> (Vec<Violation>, Outcome) {
    let sc = &one_by_one(sc);
    let mut ring = RingH::new(&sc.knobs);
    let mut out = Outcome::default();
    let mut viols: Vec<Violation> = Vec::new();
    let limit = sc.knobs.memory_limit;
    {
        let mut d = Driver::new(&mut ring, sc.knobs.item_limit, 0, LossMode::ChargeC15).with_slack(1);
        d.keep_log = keep_log;
        let mut prev = d.exec.probe().unwrap_or_default();
        let mut ever_over_limit = false;
        let mut max_stored = 0u64;
        let mut pending: Vec<(usize, usize)> = Vec::new();
        let mut seen_sigs: std::collections::BTreeSet<&'static str> = Default::default();
        let mut all_keys: Vec<Vec<u8>> = Vec::new();
        for ev in &sc.events {
            if let Ev::Send { req, .. } = ev {
                if !req.key.is_empty() && !all_keys.contains(&req.key) {
                    all_keys.push(req.key.clone());
                }
            }
        }
        for ev in &sc.events {
            if let Ev::Send { c, .. } = ev {
                let idx = d.conns.get(*c).map(|x| x.frames.len()).unwrap_or(0);
                pending.push((*c, idx));
            }
            // state of the addressed key before the command (for attribution)
            let before_len: Vec<Option<u64>> = pending
                .iter()
                .map(|(c, idx)| d.conns.get(*c).and_then(|x| x.frames.get(*idx)).and_then(|f| d.exec.record_len(&f.req.key)))
                .collect();
            let before_pres: Vec<crate::model::Presence> = pending
                .iter()
                .map(|(c, idx)| d.conns.get(*c).and_then(|x| x.frames.get(*idx)).map(|f| d.model.presence(&f.req.key)).unwrap_or(crate::model::Presence::Absent))
                .collect();
            let single = pending.len() == 1;
            let stored_before: Vec<Option<u64>> = if single && matches!(ev, Ev::Deliver { .. }) { all_keys.iter().map(|k| d.exec.record_len(k)).collect() } else { Vec::new() };
            d.step(ev);
            if let Ev::Deliver { .. } = ev {
                let now = d.exec.probe().unwrap_or_default();
                // ---- direct eviction oracle: a record of a key the command does not address
                // vanished during a store, i.e. it was evicted. The policy may evict only when
                // the usage it accounts, including the record being written, exceeds the limit.
                if single && !stored_before.is_empty() {
                    let (c, idx) = pending[0];
                    let f = d.conns[c].frames[idx].clone();
                    let info = op_info(f.req.opcode);
                    let stores = matches!(info.kind, Kind::Set | Kind::Add | Kind::Replace | Kind::Append | Kind::Prepend | Kind::Incr | Kind::Decr);
                    if stores {
                        let own_before = before_len[0].unwrap_or(24);
                        // upper bound of the record the command can have handed to the policy
                        let written_ub: u64 = match info.kind {
                            Kind::Set | Kind::Add | Kind::Replace => 24 + f.req.value.len() as u64,
                            Kind::Append | Kind::Prepend => own_before + f.req.value.len() as u64,
                            _ => 24 + 20,
                        };
                        let acc_prev = prev.accounted.unwrap_or(0);
                        for (k, b) in all_keys.iter().zip(stored_before.iter()) {
                            if *k == f.req.key || b.is_none() {
                                continue;
                            }
                            if d.exec.record_len(k).is_none() {
                                out.count("evictions_observed", 1);
                                if acc_prev.saturating_add(written_ub) <= limit && seen_sigs.insert("evicted-although-accounted-usage-within-limit") {
                                    viols.push(Violation::new(
                                        "C15",
                                        "evicted-although-accounted-usage-within-limit",
                                        format!("a {:?} of key {} evicted the record of key {} ({} bytes) although the accounted usage {} plus the record being written (at most {}) does not exceed the limit {} ({} bytes in {} records were stored)", info.kind, wire::hex_short(&f.req.key, 8), wire::hex_short(k, 8), b.unwrap_or(0), acc_prev, written_ub, limit, prev.stored_bytes, prev.items),
                                    ));
                                }
                                if acc_prev.saturating_add(written_ub) == limit.saturating_add(0) {
                                    out.count("usage_equals_limit_probe", 1);
                                }
                            }
                        }
                        if acc_prev.saturating_add(24 + f.req.value.len() as u64) == limit && matches!(info.kind, Kind::Set | Kind::Add | Kind::Replace) {
                            out.count("store_reaching_exactly_the_limit", 1);
                        }
                    }
                }
                max_stored = max_stored.max(now.stored_bytes);
                let acc_prev = prev.accounted.unwrap_or(0);
                let acc_now = now.accounted.unwrap_or(0);
                if acc_prev > limit {
                    ever_over_limit = true;
                }
                let drift_prev = acc_prev as i128 - prev.stored_bytes as i128;
                let drift_now = acc_now as i128 - now.stored_bytes as i128;
                // a difference that shrinks towards zero is the accounting being corrected
                // (empty-store reset, eviction); what is reported is drift being created
                // (a command that starts with the accounted usage above the limit runs an eviction sweep:
                // that is the recorded consequence of earlier drift, reported through live-item-lost, and the
                // sweep's own arithmetic is C14's business)
                if drift_now != drift_prev && acc_prev <= limit && (drift_now.abs() > drift_prev.abs() || (drift_now < 0) != (drift_prev < 0)) {
                    // attribute: which known mechanism explains exactly this change?
                    let delta = drift_now - drift_prev;
                    let (kind, st, cause) = if single {
                        let (c, idx) = pending[0];
                        let f = d.conns[c].frames[idx].clone();
                        let info = op_info(f.req.opcode);
                        let st = f.response.as_ref().map(|r| r.status).unwrap_or(0);
                        let ok = st == status::OK;
                        let old_len = before_len[0].unwrap_or(0) as i128;
                        let existed = before_len[0].is_some();
                        let exists_now = d.exec.record_len(&f.req.key).is_some();
                        let stores = matches!(info.kind, Kind::Set | Kind::Add | Kind::Replace | Kind::Append | Kind::Prepend | Kind::Incr | Kind::Decr);
                        // (once the accounted usage has been over the limit, items may have been evicted and
                        // silently re-created with other TTLs: the model's idea of this key's expiry no longer binds)
                        let was_expired = ever_over_limit || matches!(before_pres[0], crate::model::Presence::Expired | crate::model::Presence::Either | crate::model::Presence::Unknown);
                        // (a delete that answers 'not found' for a stored-but-expired record has collected it, too)
                        let collected = existed && was_expired && (!exists_now || (stores && ok)) && !matches!(info.kind, Kind::Flush | Kind::Set) && (info.kind != Kind::Delete || st == status::NOT_FOUND);
                        let overwrote = existed && !collected && stores && ok && exists_now;
                        // a conditional store refused inside the inner store (CAS mismatch, or - where a server refuses
                        // a CAS-carrying store of a missing key - 'not found') after the policy layer had counted it
                        let failed_counted = stores && f.req.cas != 0 && ((st == status::EXISTS && existed) || (st == status::NOT_FOUND && !existed));
                        let explained = if collected || overwrote { old_len } else { 0 };
                        let cause = if info.kind == Kind::Flush {
                            if ok && delta == prev.stored_bytes as i128 - now.stored_bytes as i128 {
                                "flush-bypasses-accounting"
                            } else {
                                "unexplained"
                            }
                        } else if failed_counted {
                            if delta - explained >= 24 {
                                "failed-store-still-counted"
                            } else {
                                "unexplained"
                            }
                        } else if delta == explained && collected {
                            "expired-item-collected-on-access"
                        } else if delta == explained && overwrote {
                            "overwrite-adds-without-subtracting"
                        } else {
                            "unexplained"
                        };
                        if cause == "unexplained" && std::env::var("VERIF_DEBUG").is_ok() {
                            eprintln!("unexplained drift: kind={:?} st={:#x} existed={} exists_now={} pres={:?} collected={} overwrote={} failed_counted={} delta={} old_len={}", info.kind, st, existed, exists_now, before_pres[0], collected, overwrote, failed_counted, delta, old_len);
                        }
                        (format!("{:?}", info.kind).to_lowercase(), if ok { "ok" } else { "err" }, cause)
                    } else {
                        ("batch".to_string(), "-", "unexplained")
                    };
                    let _ = st;
                    let clause = intern(&format!("drift:{}", cause));
                    if seen_sigs.insert(clause) {
                        viols.push(Violation::new(
                            "C15",
                            clause,
                            format!("accounted usage minus stored bytes changed from {} to {} (accounted {} -> {}, stored {} -> {}, items {} -> {}) after a {} ({}); limit {}", drift_prev, drift_now, acc_prev, acc_now, prev.stored_bytes, now.stored_bytes, prev.items, now.items, kind, cause, limit),
                        ));
                    }
                    out.count("drift_events", 1);
                }
                // postcondition of the eviction sweep: a store that started above the limit ends
                // with the usage at most limit + the record it wrote (either enough was evicted, or
                // the store ran empty and the counter was reset to that record)
                if single && acc_prev > limit {
                    let (c, idx) = pending[0];
                    let f = d.conns[c].frames[idx].clone();
                    let info = op_info(f.req.opcode);
                    let st = f.response.as_ref().map(|r| r.status).unwrap_or(0);
                    let stores = matches!(info.kind, Kind::Set | Kind::Add | Kind::Replace | Kind::Append | Kind::Prepend | Kind::Incr | Kind::Decr);
                    // (only for commands that went through the policy layer: they change the counter or the content)
                    let went_through = acc_now != acc_prev || now.stored_bytes != prev.stored_bytes;
                    // the sweep's arithmetic, exactly, for a plain store: every bystander record that
                    // vanished was evicted and must have been subtracted with its full Record::len()
                    // (the addressed key's own old record may have been a victim as well); if the store
                    // ran empty the counter restarts at the record written
                    if info.kind == Kind::Set && f.req.cas == 0 && st == status::OK && !stored_before.is_empty() {
                        let added = 24 + f.req.value.len() as u64;
                        let mut evicted = 0u64;
                        let mut n_evicted = 0u64;
                        for (k, b) in all_keys.iter().zip(stored_before.iter()) {
                            if *k != f.req.key && b.is_some() && d.exec.record_len(k).is_none() {
                                evicted += b.unwrap();
                                n_evicted += 1;
                            }
                        }
                        let own_old = before_len[0].unwrap_or(0);
                        let a = acc_prev + added;
                        let ok = acc_now == a.saturating_sub(evicted) || acc_now == a.saturating_sub(evicted + own_old) || (now.items == 1 && acc_now == added);
                        if !ok && n_evicted > 0 && prev.items as usize <= all_keys.len() && seen_sigs.insert("drift:eviction-subtracts-wrong-amount") {
                            viols.push(Violation::new(
                                "C15",
                                "drift:eviction-subtracts-wrong-amount",
                                format!("a Set that started with the accounted usage {} above the limit {} evicted {} record(s) of {} bytes in all and wrote {} bytes: the accounted usage should be {} (or {} if its own old record of {} bytes was evicted too) but is {}", acc_prev, limit, n_evicted, evicted, added, a.saturating_sub(evicted), a.saturating_sub(evicted + own_old), own_old, acc_now),
                            ));
                        }
                    }
                    if stores && st == status::OK && went_through {
                        if let Some(l) = d.exec.record_len(&f.req.key) {
                            if acc_now > limit.saturating_add(l) && seen_sigs.insert("sweep-leaves-usage-over-limit") {
                                viols.push(Violation::new(
                                    "C15",
                                    "sweep-leaves-usage-over-limit",
                                    format!("a {:?} that started with the accounted usage {} above the limit {} ended with {} accounted although only {} bytes in {} records are stored (record written: {} bytes): the eviction sweep neither evicted enough nor reset the counter", info.kind, acc_prev, limit, acc_now, now.stored_bytes, now.items, l),
                                ));
                            }
                        }
                    }
                }
                if now.items == 0 && acc_now != 0 && prev.items != 0 {
                    out.count("empty_store_with_nonzero_accounting", 1);
                }
                // items actually evicted although the content fits
                prev = now;
                pending.clear();
            }
        }
        d.finish();
        let mv = std::mem::take(&mut d.violations);
        for v in mv {
            if v.prop == "C15" && v.clause == "live-item-lost" {
                let clause = if ever_over_limit { "live-item-lost:accounted-usage-over-limit" } else { "live-item-lost:accounted-usage-under-limit" };
                if seen_sigs.insert(clause) {
                    viols.push(Violation::new("C15", clause, format!("{} (stored bytes never exceeded {} of limit {}; accounted usage exceeded the limit: {})", v.detail, max_stored, limit, ever_over_limit)));
                }
            } else {
                viols.push(v);
            }
        }
        if max_stored > limit {
            out.count("runs_where_content_exceeded_limit", 1);
        }
        out.fp = d.fingerprint();
        out.stats = d.stats.clone();
        out.nontrivial = d.model.state_dependent > 0;
        out.log = std::mem::take(&mut d.log);
    }
    (viols, out)
}

impl Check for C15 {
    fn id(&self) -> &'static str {
        "C15"
    }
    fn runs(&self, tier: Tier) -> u64 {
        match tier {
            Tier::Quick => 16_000,
            Tier::Thorough => 60_000,
        }
    }
    fn generate(&self, run_seed: u64, index: u64, tier: Tier) -> Case {
        // one run in four is a small concurrent program on ring T (they are cheap next to the
        // long sequential workloads)
        if index % 4 == 3 {
            let t = crate::checks::tchecks::TCheck { kind: crate::checks::tchecks::TKind::C15 };
            return t.generate(run_seed, index, tier);
        }
        let sc = gen_c15(run_seed, tier);
        Case {
            kind: "H".into(),
            data: json!({"scenario": sc.to_json()}),
        }
    }
    fn run_fast(&self, run_seed: u64, index: u64, tier: Tier) -> Option<Outcome> {
        if index % 4 == 3 {
            return None;
        }
        let sc = gen_c15(run_seed, tier);
        Some(exec_c15(&sc, false))
    }
    fn execute(&self, case: &Case) -> Outcome {
        if case.kind == "T" {
            let t = crate::checks::tchecks::TCheck { kind: crate::checks::tchecks::TKind::C15 };
            let mut out = t.execute(case);
            out.count("ring_T_runs", 1);
            return out;
        }
        let sc = scenario_of(case);
        exec_c15(&sc, case.data.get("log").is_some())
    }
    fn shrink(&self, case: &Case) -> Vec<Case> {
        if case.kind == "T" {
            let t = crate::checks::tchecks::TCheck { kind: crate::checks::tchecks::TKind::C15 };
            return t.shrink(case);
        }
        crate::minimise::shrink_scenario_case(case)
    }
    fn rule(&self) -> String {
        "seeded long workloads (30..10000 commands, every command kind) over a live set of 2-5 small items under random eviction with a limit 20-1000x the largest possible live set (one run in three: a limit that the accounted usage of this very workload reaches exactly, found by a dry run); direct oracle: a record of a key the command does not address vanishes during a store (= eviction) only if accounted usage + record being written exceeds the limit; behavioural oracle: no key the reference model says is live ever misses; accounting oracle (hook H4 accessor): after every command accounted usage minus the sum of Record::len() must not change, and every change is attributed to (command kind, outcome, cause). non-trivial = a command's outcome depended on earlier state; distinct = distinct event-log fingerprints".into()
    }
    fn assumptions(&self) -> Vec<String> {
        vec!["the cfg(memcrs_verif) accessor RandomPolicy::verif_memory_usage reads the counter without changing behaviour".into(), "ring H (sequential) for the attribution of drift; ring T (1 run in 4): 2-3 clients x 1-3 commands (stores of fresh keys, deletes of existing keys, gets) under seeded schedules with limits 80..400 bytes - none of the recorded drift mechanisms can occur there and the recorded races only lower the counter, so accounted usage > stored bytes afterwards is a violation".into()]
    }
    fn components(&self) -> Value {
        json!({
            "real": ["binary_codec", "handler", "MemcStore", "RandomPolicy (accounting, eviction)", "MemoryStore", "DashMap table logic"],
            "stub": ["Timer (SimTimer)", "victim RNG seed (hook H4)", "DashMap hasher seed / shard count"],
        })
    }
    fn sample(&self, case: &Case) -> Value {
        if case.kind == "T" {
            return case.data["program"].clone();
        }
        compact_sample(case)
    }
}

pub fn checks() -> Vec<Box<dyn Check>> {
    vec![Box::new(C14), Box::new(C15)]
}
