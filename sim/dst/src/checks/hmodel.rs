//! Reference-model checks on rings H and N: C01, C02, C05, C06, C07, C08, C11.
//! One engine, per-property workload profiles and claimed clauses.
use crate::check::{Case, Check, Outcome, Tier};
use crate::driver::Driver;
use crate::gen::{Gen, Profile, Weights};
use crate::model::{LossMode, Violation};
use crate::ringh::RingH;
use crate::ringn::RingN;
use crate::segment::{to_ring_n, SegStyle};
use crate::rng::Rng;
use crate::scenario::{Knobs, Policy, Scenario};
use serde_json::{json, Value};

pub struct ModelCheck {
    pub id: &'static str,
    pub claims: &'static [&'static str],
    pub profile: fn(&mut Rng, Tier) -> Profile,
    pub quick_runs: u64,
    pub thorough_runs: u64,
    pub focus: &'static str,
}

pub fn knobs_for(rng: &mut Rng, seed: u64) -> Knobs {
    let mut k = Knobs::default_for(seed);
    k.shards = *rng.pick(&[2usize, 4, 16, 64]);
    k.item_limit = *rng.pick(&[1024u32, 4096, 65536, 1024 * 1024]);
    if rng.chance(1, 2) {
        k.policy = Policy::Random;
        k.memory_limit = 1 << 62; // never reached, even by a drifting counter
    }
    k
}

pub fn execute_h(sc: &Scenario, loss: LossMode, slack: u64, keep_log: bool) -> (Vec<Violation>, Outcome) {
    let mut ring = RingH::new(&sc.knobs);
    let mut out = Outcome::default();
    let viols;
    {
        let mut d = Driver::new(&mut ring, sc.knobs.item_limit, 0, loss).with_slack(slack);
        d.keep_log = keep_log;
        d.run(sc);
        viols = std::mem::take(&mut d.violations);
        out.fp = d.fingerprint();
        out.nontrivial = d.model.state_dependent > 0;
        out.stats = d.stats.clone();
        for (k, st, p) in d.model.cells.iter() {
            out.cells.insert(format!("{:?}/{:#06x}/{}", k, st, p));
        }
        out.log = std::mem::take(&mut d.log);
    }
    out.count("max_decode_buffer_capacity", ring.max_buffer_capacity as u64);
    (viols, out)
}

pub fn execute_n(sc: &Scenario, loss: LossMode, slack: u64, keep_log: bool) -> (Vec<Violation>, Outcome) {
    let mut ring = RingN::new(&sc.knobs);
    let mut out = Outcome::default();
    let viols;
    {
        let mut d = Driver::new(&mut ring, sc.knobs.item_limit, sc.knobs.timeout_secs, loss).with_slack(slack);
        d.keep_log = keep_log;
        d.run(sc);
        viols = std::mem::take(&mut d.violations);
        out.fp = d.fingerprint();
        out.nontrivial = d.model.state_dependent > 0 && (d.stats.cuts_inside_frame > 0 || d.stats.fins + d.stats.rsts > 0);
        out.stats = d.stats.clone();
        for (k, st, p) in d.model.cells.iter() {
            out.cells.insert(format!("{:?}/{:#06x}/{}", k, st, p));
        }
        out.log = std::mem::take(&mut d.log);
    }
    out.count("quiesce_spins", ring.quiesce_spins);
    out.count("max_quiesce_spins", ring.max_spins);
    (viols, out)
}

impl ModelCheck {
    /// C05 only: one run in ten is a small concurrent program on ring T racing
    /// on a key that is just alive or just expired and not yet collected
    fn ring_t(&self, index: u64) -> bool {
        (self.id == "C05" || self.id == "C08" || self.id == "C02") && index % 10 == 9
    }
    fn tcheck(&self) -> crate::checks::tchecks::TCheck {
        crate::checks::tchecks::TCheck {
            kind: match self.id {
                "C08" => crate::checks::tchecks::TKind::C08,
                "C02" => crate::checks::tchecks::TKind::C02,
                _ => crate::checks::tchecks::TKind::C05,
            },
        }
    }
    fn gen_sc(&self, run_seed: u64, tier: Tier) -> (Scenario, &'static str) {
        let mut krng = Rng::sub(run_seed, "knobs");
        let mut knobs = knobs_for(&mut krng, run_seed);
        let mut prng = Rng::sub(run_seed, "profile");
        let profile = (self.profile)(&mut prng, tier);
        if profile.max_value as u32 + 300 > knobs.item_limit {
            knobs.item_limit = if profile.max_value > 900_000 { 1024 * 1024 + 512 } else { 1024 * 1024 };
        }
        let mut wrng = Rng::sub(run_seed, "workload");
        let ring_n = Rng::sub(run_seed, "ring").chance(1, 4);
        let mut profile = profile;
        if ring_n {
            // the whole server per run costs more: shorter histories, real 1 Hz clock
            profile.cmds = profile.cmds.min(60);
            profile.whole_seconds = false;
            profile.far_advance = profile.far_advance.min(200);
            profile.advance_cap = 300;
            profile.ttls.retain(|t| *t <= 120);
            if profile.ttls.is_empty() {
                profile.ttls = vec![1, 2, 3, 5];
            }
            profile.batch_pct = 30;
            knobs.timeout_secs = *krng.pick(&[1u32, 5, 60, 120]);
            knobs.conn_limit = 64;
            // the thread driving the 1 Hz timer is stalled during long advances and has to catch up
            knobs.stall = krng.chance(1, 2);
        }
        let mut g = Gen::new(&mut wrng, profile);
        let sc = g.scenario(knobs);
        if ring_n {
            let mut srng = Rng::sub(run_seed, "segmentation");
            return (to_ring_n(&sc, &mut srng, SegStyle::Mixed, 10), "N");
        }
        (sc, "H")
    }

    fn exec_sc(&self, sc: &Scenario, kind: &str, keep_log: bool) -> Outcome {
        // C05 and C08 assert exact instants (an item's expiry; "from n seconds after the flush at
        // the latest"); elsewhere one second around such an instant is left open, so that an
        // off-by-one there is reported by these two checks only
        let slack = if self.id == "C05" || self.id == "C08" { 0 } else { 1 };
        let (viols, mut out) = if kind == "N" {
            execute_n(sc, LossMode::Strict, slack, keep_log)
        } else {
            execute_h(sc, LossMode::Strict, slack, keep_log)
        };
        out.count(if kind == "N" { "ring_N_runs" } else { "ring_H_runs" }, 1);
        let claims = self.claims;
        let mut viols = viols;
        if self.id == "C01" {
            // C01's first sentence covers every acknowledged store command: a retrieval that
            // returns other bytes or flags than the last acknowledged mutation produced is
            // C01's business whatever that mutation was (C06 / C07 report it as well, as a
            // wrong concatenation / counter text)
            for v in viols.iter_mut() {
                if (v.prop == "C06" || v.prop == "C07") && (v.clause == "retrieved-value-differs" || v.clause == "retrieved-flags-differ") {
                    v.prop = "C01";
                }
            }
        }
        // debugging / defect confirmation: claim exactly one signature, whichever property it belongs to
        match std::env::var("VERIF_CLAIM_SIG") {
            Ok(sig) => out.absorb(viols, &|v| v.signature() == sig),
            Err(_) => out.absorb(viols, &|v| claims.contains(&v.prop)),
        }
        out
    }
}

impl Check for ModelCheck {
    fn id(&self) -> &'static str {
        self.id
    }
    fn runs(&self, tier: Tier) -> u64 {
        match tier {
            Tier::Quick => self.quick_runs,
            Tier::Thorough => self.thorough_runs,
        }
    }
    fn generate(&self, run_seed: u64, index: u64, tier: Tier) -> Case {
        if self.ring_t(index) {
            return self.tcheck().generate(run_seed, index, tier);
        }
        let (sc, kind) = self.gen_sc(run_seed, tier);
        Case {
            kind: kind.into(),
            data: json!({"scenario": sc.to_json()}),
        }
    }
    fn run_fast(&self, run_seed: u64, index: u64, tier: Tier) -> Option<Outcome> {
        if self.ring_t(index) {
            return None;
        }
        let (sc, kind) = self.gen_sc(run_seed, tier);
        Some(self.exec_sc(&sc, kind, false))
    }
    fn shrink(&self, case: &Case) -> Vec<Case> {
        if case.kind == "T" {
            return self.tcheck().shrink(case);
        }
        crate::minimise::shrink_scenario_case(case)
    }
    fn execute(&self, case: &Case) -> Outcome {
        if case.kind == "T" {
            let mut out = self.tcheck().execute(case);
            out.count("ring_T_runs", 1);
            return out;
        }
        let sc = match Scenario::from_json(&case.data["scenario"]) {
            Some(s) => s,
            None => {
                eprintln!("harness error: bad scenario in case");
                std::process::exit(2);
            }
        };
        let keep_log = case.data.get("log").is_some();
        self.exec_sc(&sc, if case.kind == "N" { "N" } else { "H" }, keep_log)
    }
    fn rule(&self) -> String {
        let mut r = format!(
            "seeded command histories ({}) over 2-6 keys run through the real codec/handler/store under a simulated clock (ring H) and checked operation by operation against the reference model; a run is non-trivial when at least one command's outcome depended on earlier state (key present, expired or unknown when addressed); distinct = distinct event-log fingerprints (all request bytes, response bytes, clock readings)",
            self.focus
        );
        if self.id == "C02" {
            r.push_str("; one run in ten is a ring-T program of 2-3 client threads x 1-3 commands (get / set / cas-set with the current or a stale token / delete with and without CAS) on one key under a seeded schedule: within one lifetime no two acknowledged mutations share a CAS, and a history with CAS-carrying commands must be linearizable (a comparison and its store or removal are one step)");
        }
        if self.id == "C08" {
            r.push_str("; one run in ten is a ring-T program of 2-3 client threads x 1-3 commands under a seeded schedule: (a) delete with CAS 0 / the current / a stale CAS racing set / cas-set / get on one key (absent, present, two versions, expired and not yet collected): the history must be linearizable, and a failure that disappears when the deletes are left free is reported as the deletes' fault; (b) immediate flushes racing stores over 3-4 keys: a value acknowledged before a flush was invoked is never read after that flush returned, and a store invoked after every flush returned (and not disturbed afterwards) is what the final read returns");
        }
        if self.id == "C05" {
            r.push_str("; TTLs up to 2^32-1 s and clock advances up to 5e9 s (every TTL is seconds from the store); one run in ten is a ring-T program: 2-3 client threads x 1-3 commands (get/getk/add/replace/append/prepend/incr/decr with and without creation/set/cas-set/delete) racing under a seeded schedule on a key whose item is one second inside its TTL, exactly at expiry, or past it and not yet collected, clock fixed while they overlap; oracle: nothing returned is (derived from) the expired value, every command sees the key absent when no command can create it, and present when the item is alive and nothing deletes it");
        }
        r
    }
    fn assumptions(&self) -> Vec<String> {
        vec![
            "ring H: the connection layer is absent (decode -> handle -> encode called directly); the same engine runs over the simulated network in the ring-N checks".into(),
            "DashMap table logic is the original 5.5.3 code; its hasher seed and shard count are simulator-owned".into(),
            "CAS values are observed, not predicted; outcomes the statements leave open are accepted (DESIGN.md section 14)".into(),
        ]
    }
    fn components(&self) -> Value {
        json!({
            "real": ["binary_codec (decode/encode)", "handler", "MemcStore", "RandomPolicy", "MemoryStore", "DashMap table logic"],
            "stub": ["Timer (SimTimer via the public Timer trait)", "DashMap hasher seed / shard count", "connection layer (not run in ring H)"],
        })
    }
    fn sample(&self, case: &Case) -> Value {
        if case.kind == "T" {
            return case.data["program"].clone();
        }
        // compact: first 12 events only
        let mut v = case.data["scenario"].clone();
        if let Some(ev) = v.get_mut("events").and_then(|e| e.as_array_mut()) {
            let n = ev.len();
            ev.truncate(12);
            ev.push(json!({"truncated_total_events": n}));
        }
        v
    }
}

fn p_c01(rng: &mut Rng, tier: Tier) -> Profile {
    let mut p = Profile::base();
    p.keys = rng.range(2, 6) as usize;
    p.cmds = match tier {
        Tier::Quick => rng.range(10, 200) as usize,
        Tier::Thorough => *rng.pick(&[20usize, 100, 500, 2000, 5000]),
    };
    p.conns = rng.range(1, 3) as usize;
    // (values beyond 4096 bytes cross the connection's initial buffer size)
    p.max_value = *rng.pick(&[16usize, 64, 300, 3000, 9000]);
    if tier == Tier::Thorough && rng.chance(1, 12) {
        // values up to (almost) the item size limit
        p.max_value = *rng.pick(&[60_000usize, 1_000_000]);
        p.cmds = p.cmds.min(60);
    } else if tier == Tier::Quick && rng.chance(1, 25) {
        // a few histories with values beyond 64 KiB in the quick tier as well
        p.max_value = *rng.pick(&[70_000usize, 140_000]);
        p.cmds = p.cmds.min(30);
    }
    p.big_value_pct = if p.max_value >= 60_000 { 30 } else { 5 };
    p.quiet_pct = *rng.pick(&[0u32, 10, 40]);
    p.cas_pct = *rng.pick(&[0u32, 10, 30]);
    p.ttl_pct = *rng.pick(&[0u32, 20, 50]);
    p.advance_pct = *rng.pick(&[0u32, 10, 30]);
    p.numeric_pct = *rng.pick(&[0u32, 20, 60]);
    p
}

fn p_c02(rng: &mut Rng, tier: Tier) -> Profile {
    let mut p = p_c01(rng, tier);
    p.keys = rng.range(1, 4) as usize;
    p.cas_pct = *rng.pick(&[40u32, 60, 80]);
    p.w = Weights {
        get: 20,
        set: 30,
        add: 5,
        replace: 10,
        append: 8,
        prepend: 8,
        incr: 8,
        decr: 6,
        delete: 10,
        flush_now: 1,
        flush_delay: 0,
        bare: 1,
    };
    p.numeric_pct = 40;
    p.odd_numeric_pct = 0;
    p
}

fn p_c05(rng: &mut Rng, tier: Tier) -> Profile {
    let mut p = p_c01(rng, tier);
    p.ttl_pct = *rng.pick(&[50u32, 80, 100]);
    p.advance_pct = *rng.pick(&[30u32, 50, 70]);
    p.w.flush_delay = *rng.pick(&[0u32, 3, 8]);
    // the statement makes every TTL a number of seconds from the store; there
    // is no "absolute time above 30 days" reading in it, so larger ones are
    // checked the same way (ring H only: ring N keeps TTLs <= 120 s)
    p.ttls = match rng.below(4) {
        0 => vec![1, 2, 3, 5],
        1 => vec![1, 2, 3, 5, 60, 3600, 86400, 2_592_000],
        2 => vec![2, 2_592_000, 2_592_001, 2_600_000, 100_000_000, u32::MAX - 1, u32::MAX],
        _ => vec![2, 5, 10, 100, 1000],
    };
    p.far_advance = *rng.pick(&[10u64, 1000, 3_000_000, 120_000_000, 5_000_000_000]);
    p
}

fn p_c06(rng: &mut Rng, tier: Tier) -> Profile {
    let mut p = p_c01(rng, tier);
    p.w = Weights {
        get: 25,
        set: 10,
        add: 20,
        replace: 20,
        append: 20,
        prepend: 20,
        incr: 2,
        decr: 2,
        delete: 10,
        flush_now: 2,
        flush_delay: 1,
        bare: 1,
    };
    p.numeric_pct = 5;
    p
}

fn p_c07(rng: &mut Rng, tier: Tier) -> Profile {
    let mut p = p_c01(rng, tier);
    p.w = Weights {
        get: 25,
        set: 20,
        add: 3,
        replace: 3,
        append: 3,
        prepend: 3,
        incr: 30,
        decr: 25,
        delete: 6,
        flush_now: 1,
        flush_delay: 0,
        bare: 1,
    };
    p.numeric_pct = *rng.pick(&[70u32, 90, 100]);
    p.odd_numeric_pct = *rng.pick(&[0u32, 15, 40]);
    p.max_value = 32;
    p.big_value_pct = 0;
    p
}

fn p_c08(rng: &mut Rng, tier: Tier) -> Profile {
    let mut p = p_c01(rng, tier);
    p.keys = rng.range(3, 6) as usize;
    p.w = Weights {
        get: 30,
        set: 25,
        add: 5,
        replace: 5,
        append: 3,
        prepend: 3,
        incr: 3,
        decr: 3,
        delete: 25,
        flush_now: 6,
        flush_delay: 8,
        bare: 1,
    };
    p.cas_pct = *rng.pick(&[10u32, 30, 50]);
    p.advance_pct = *rng.pick(&[20u32, 40]);
    p
}

fn p_c11(rng: &mut Rng, tier: Tier) -> Profile {
    let mut p = p_c01(rng, tier);
    p.quiet_pct = 30;
    p.cas_pct = 30;
    p.w.bare = 10;
    p.numeric_pct = 40;
    p.odd_numeric_pct = 30;
    p
}

pub fn checks() -> Vec<Box<dyn Check>> {
    vec![
        Box::new(ModelCheck {
            id: "C01",
            claims: &["C01"],
            profile: p_c01,
            quick_runs: 60_000,
            thorough_runs: 400_000,
            focus: "all command kinds, binary values, flags, TTLs and clock advances",
        }),
        Box::new(ModelCheck {
            id: "C02",
            claims: &["C02"],
            profile: p_c02,
            quick_runs: 60_000,
            thorough_runs: 400_000,
            focus: "CAS-carrying variants of every mutation with current / stale / shifted / arbitrary tokens",
        }),
        Box::new(ModelCheck {
            id: "C05",
            claims: &["C05"],
            profile: p_c05,
            quick_runs: 60_000,
            thorough_runs: 400_000,
            focus: "stores with TTLs, clock advances aimed at expiry-1 / expiry / expiry+1, delayed flushes",
        }),
        Box::new(ModelCheck {
            id: "C06",
            claims: &["C06"],
            profile: p_c06,
            quick_runs: 60_000,
            thorough_runs: 400_000,
            focus: "add / replace / append / prepend on absent, present, expired, deleted and flushed keys",
        }),
        Box::new(ModelCheck {
            id: "C07",
            claims: &["C07"],
            profile: p_c07,
            quick_runs: 60_000,
            thorough_runs: 400_000,
            focus: "incr / decr over decimal values across the u64 range, odd numerals, extreme deltas, creation rules",
        }),
        Box::new(ModelCheck {
            id: "C08",
            claims: &["C08"],
            profile: p_c08,
            quick_runs: 60_000,
            thorough_runs: 400_000,
            focus: "deletes (cas 0 / matching / stale), immediate and delayed flushes, re-stores",
        }),
    ]
}
