//! Ring H: bytes -> MemcacheBinaryCodec::decode (caller-owned BytesMut, fed in
//! simulator-chosen chunks) -> BinaryHandler::handle_request -> Encoder::encode,
//! over the real store stack with a simulated Timer. The connection layer is
//! absent: quit / quitq / oversized-skip are emulated the way the protocol
//! describes them (this ring is not used to decide connection-layer properties).
#![allow(dead_code)]
use crate::driver::{ConnState, Exec, StoreProbe};
use crate::scenario::Knobs;
use crate::stack::{self, build_store, SimTimer, StoreStack};
use bytes::BytesMut;
use memcrs::memcache::store::MemcStore;
use memcrs::memcache_server::handler::BinaryHandler;
use memcrs::protocol::binary_codec::{BinaryRequest, BinaryResponse, MemcacheBinaryCodec};
use std::panic::{catch_unwind, AssertUnwindSafe};
use std::sync::Arc;
use tokio_util::codec::{Decoder, Encoder};

struct HConn {
    codec: MemcacheBinaryCodec,
    buf: BytesMut,
    handler: BinaryHandler,
    out: Vec<u8>,
    closed: bool,
    skip: u64,
    max_capacity: usize,
}

pub struct RingH {
    pub timer: Arc<SimTimer>,
    pub stack: StoreStack,
    pub store: Arc<MemcStore>,
    conns: Vec<Option<HConn>>,
    item_limit: u32,
    sub_ms: u64,
    panics: Vec<String>,
    pub max_buffer_capacity: usize,
    pub decode_calls: u64,
}

fn body_length_of(req: &BinaryRequest) -> u32 {
    // RequestHeader's fields are crate-private; it derives Serialize
    serde_json::to_value(req.get_header())
        .ok()
        .and_then(|v| v.get("body_length").and_then(|x| x.as_u64()))
        .unwrap_or(0) as u32
}

impl RingH {
    pub fn new(knobs: &Knobs) -> RingH {
        let timer = Arc::new(SimTimer::new(1));
        let stack = build_store(knobs, timer.clone());
        let store = Arc::new(MemcStore::new(stack.cache.clone()));
        RingH {
            timer,
            stack,
            store,
            conns: Vec::new(),
            item_limit: knobs.item_limit,
            sub_ms: 0,
            panics: Vec::new(),
            max_buffer_capacity: 0,
            decode_calls: 0,
        }
    }

    fn process(&mut self, c: usize) {
        let conn = match self.conns[c].as_mut() {
            Some(x) => x,
            None => return,
        };
        loop {
            if conn.closed {
                conn.buf.clear();
                return;
            }
            if conn.skip > 0 {
                let n = (conn.skip as usize).min(conn.buf.len());
                let _ = conn.buf.split_to(n);
                conn.skip -= n as u64;
                if conn.skip > 0 {
                    return;
                }
            }
            self.decode_calls += 1;
            stack::capture_panics(true);
            let res = catch_unwind(AssertUnwindSafe(|| conn.codec.decode(&mut conn.buf)));
            stack::capture_panics(false);
            conn.max_capacity = conn.max_capacity.max(conn.buf.capacity());
            self.max_buffer_capacity = self.max_buffer_capacity.max(conn.buf.capacity());
            let decoded = match res {
                Err(_) => {
                    self.panics.extend(stack::take_panics());
                    conn.closed = true;
                    return;
                }
                Ok(Err(_e)) => {
                    conn.closed = true;
                    return;
                }
                Ok(Ok(None)) => return,
                Ok(Ok(Some(r))) => r,
            };
            let mut close_after = false;
            match &decoded {
                BinaryRequest::QuitQuietly(_) => {
                    conn.closed = true;
                    return;
                }
                BinaryRequest::Quit(_) => close_after = true,
                BinaryRequest::ItemTooLarge(_) => {
                    let bl = body_length_of(&decoded);
                    conn.skip = bl as u64;
                }
                _ => {}
            }
            stack::capture_panics(true);
            let res = catch_unwind(AssertUnwindSafe(|| {
                let resp: Option<BinaryResponse> = conn.handler.handle_request(decoded);
                resp.map(|r| {
                    let mut dst = BytesMut::new();
                    let _ = conn.codec.encode(r, &mut dst);
                    dst
                })
            }));
            stack::capture_panics(false);
            match res {
                Err(_) => {
                    self.panics.extend(stack::take_panics());
                    conn.closed = true;
                    return;
                }
                Ok(Some(bytes)) => conn.out.extend_from_slice(&bytes),
                Ok(None) => {}
            }
            if close_after {
                conn.closed = true;
                return;
            }
        }
    }
}

impl Exec for RingH {
    fn connect(&mut self, c: usize) -> bool {
        while self.conns.len() <= c {
            self.conns.push(None);
        }
        self.conns[c] = Some(HConn {
            codec: MemcacheBinaryCodec::new(self.item_limit),
            buf: BytesMut::with_capacity(4096),
            handler: BinaryHandler::new(self.store.clone()),
            out: Vec::new(),
            closed: false,
            skip: 0,
            max_capacity: 0,
        });
        true
    }
    fn deliver(&mut self, c: usize, bytes: &[u8]) {
        if let Some(Some(conn)) = self.conns.get_mut(c) {
            if conn.closed {
                return;
            }
            conn.buf.extend_from_slice(bytes);
            self.process(c);
        }
    }
    fn fin(&mut self, c: usize) {
        if let Some(Some(conn)) = self.conns.get_mut(c) {
            conn.closed = true;
        }
    }
    fn rst(&mut self, c: usize) {
        if let Some(Some(conn)) = self.conns.get_mut(c) {
            conn.closed = true;
        }
    }
    fn advance_ms(&mut self, ms: u64) {
        let total = self.sub_ms + ms;
        self.timer.add(total / 1000);
        self.sub_ms = total % 1000;
    }
    fn now(&self) -> u64 {
        self.timer.peek()
    }
    fn take_output(&mut self, c: usize) -> Vec<u8> {
        match self.conns.get_mut(c) {
            Some(Some(conn)) => std::mem::take(&mut conn.out),
            _ => Vec::new(),
        }
    }
    fn conn_state(&self, c: usize) -> ConnState {
        match self.conns.get(c) {
            Some(Some(conn)) => ConnState {
                server_closed: conn.closed,
                write_blocked: false,
                accepted: true,
                unread_inbound: conn.buf.len(),
            },
            _ => ConnState::default(),
        }
    }
    fn probe(&self) -> Option<StoreProbe> {
        Some(self.stack.probe())
    }
    fn record_len(&self, key: &[u8]) -> Option<u64> {
        self.stack.record_len(key)
    }
    fn take_panics(&mut self) -> Vec<String> {
        let mut p = std::mem::take(&mut self.panics);
        p.extend(stack::take_probe_panics());
        p
    }
    fn ring(&self) -> &'static str {
        "H"
    }
}
