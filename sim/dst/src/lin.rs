//! Linearizability checker for ring-T histories (§6.3): depth-first search
//! over linearization orders that respect real-time order (invoke/return
//! stamped with the scheduler's global step number), against the reference
//! model; plus the relaxed specification used only to attribute known findings
//! (read-modify-write commands split into their read step and their write step).
#![allow(dead_code)]
use crate::model::{classify_number, Model, Num, Violation};
use crate::ringt::{THistory, TOp};
use crate::wire::{op_info, status, Kind, Request, Response};
use std::collections::BTreeMap;

pub struct LinResult {
    pub ok: bool,
    pub orders_tried: u64,
    /// why the best attempt failed (violations of the deepest prefix)
    pub why: Vec<Violation>,
    pub witness: Vec<usize>,
}

/// Violations that decide whether an ordering is possible: everything except the recorded
/// known finding of C02 about lifetimes begun with a client-derived CAS (a token reused there
/// says nothing about the order in which the commands took effect).
fn deciding(v: Vec<Violation>) -> Vec<Violation> {
    v.into_iter().filter(|x| !(x.prop == "C02" && x.clause == "cas-reused-in-lifetime-begun-with-client-cas")).collect()
}

fn search(
    ops: &[TOp],
    done: &mut Vec<bool>,
    order: &mut Vec<usize>,
    model: &Model,
    finals: &[(Request, Option<Response>)],
    tried: &mut u64,
    best: &mut (usize, Vec<Violation>),
    wild: Option<Kind>,
) -> bool {
    if order.len() == ops.len() {
        *tried += 1;
        // final sequential reads must agree with the final state
        let mut m = model.clone();
        for (req, resp) in finals {
            m.apply(req, resp.as_ref());
        }
        let v = deciding(m.take_violations());
        if v.is_empty() {
            return true;
        }
        if order.len() + 1 > best.0 {
            *best = (order.len() + 1, v);
        }
        return false;
    }
    // minimal elements of the real-time partial order among the remaining ops
    let min_ret = ops
        .iter()
        .enumerate()
        .filter(|(i, _)| !done[*i])
        .map(|(_, o)| o.ret)
        .min()
        .unwrap_or(u32::MAX);
    for i in 0..ops.len() {
        if done[i] {
            continue;
        }
        // i may go next only if no other pending op returned before i was invoked
        if ops[i].inv > min_ret {
            continue;
        }
        if wild == Some(op_info(ops[i].req.opcode).kind) && wild == Some(Kind::Delete) {
            // attribution only: this delete may have removed the key or not,
            // whatever it answered
            let key = ops[i].req.key.clone();
            let mut removed = model.clone();
            let st = if removed.items.contains_key(&key) { status::OK } else { status::NOT_FOUND };
            let req = Request::delete(crate::wire::op::DELETE, &key, 0);
            let resp = Response {
                magic: 0x81,
                opcode: crate::wire::op::DELETE,
                key_len: 0,
                extras_len: 0,
                data_type: 0,
                status: st,
                body_len: 0,
                opaque: 0,
                cas: 0,
                body: Vec::new(),
            };
            removed.apply(&req, Some(&resp));
            let _ = removed.take_violations();
            for m in [removed, model.clone()] {
                done[i] = true;
                order.push(i);
                if search(ops, done, order, &m, finals, tried, best, wild) {
                    return true;
                }
                order.pop();
                done[i] = false;
            }
            continue;
        }
        let mut m = model.clone();
        if ops[i].req.opcode == crate::ringt::TICK {
            m.advance(ops[i].req.cas);
        } else {
            m.apply(&ops[i].req, ops[i].resp.as_ref());
        }
        let v = deciding(m.take_violations());
        if !v.is_empty() {
            if order.len() + 1 > best.0 {
                *best = (order.len() + 1, v);
            }
            continue;
        }
        done[i] = true;
        order.push(i);
        if search(ops, done, order, &m, finals, tried, best, wild) {
            return true;
        }
        order.pop();
        done[i] = false;
    }
    false
}

/// Atomic specification: every command takes effect at one instant.
pub fn check_atomic(h: &THistory) -> LinResult {
    check_atomic_wild(h, None)
}

/// As `check_atomic`, but commands of kind `wild` (Delete only) are free: any
/// answer, removed or not. A history that fails the atomic specification and
/// passes this one is explained by those commands alone.
pub fn check_atomic_wild(h: &THistory, wild: Option<Kind>) -> LinResult {
    let ops: Vec<TOp> = h.ops.iter().filter(|o| o.completed && o.panic.is_none()).cloned().collect();
    let mut done = vec![false; ops.len()];
    let mut order = Vec::new();
    let mut tried = 0u64;
    let mut best = (0usize, Vec::new());
    let ok = search(&ops, &mut done, &mut order, &h.init_model, &h.final_reads, &mut tried, &mut best, wild);
    LinResult {
        ok,
        orders_tried: tried,
        why: best.1,
        witness: order,
    }
}

// ---------------------------------------------------------------------------
// Relaxed specification: models memc-rs's "get, then a separate Cache::set"
// implementation of add / replace / append / prepend / incr / decr for the
// command kinds in `split`. Used only to attribute a non-linearizable history
// to the known read-modify-write windows.
// ---------------------------------------------------------------------------

#[derive(Clone, Debug, PartialEq, Eq)]
struct RItem {
    value: Vec<u8>,
    flags: Option<u32>,
    cas: Option<u64>,
}

#[derive(Clone, Debug)]
struct RState {
    items: BTreeMap<Vec<u8>, RItem>,
    /// keys that are logically absent (expired) but whose record may still be
    /// physically stored: delete and CAS-carrying set look at that record
    ghosts: std::collections::BTreeSet<Vec<u8>>,
}

#[derive(Clone, Debug)]
enum Pending {
    /// the write step that is still to come: store `value` (flags) under `key`,
    /// conditional on `req_cas` when non-zero
    Write { key: Vec<u8>, value: Vec<u8>, flags: Option<u32>, req_cas: u64 },
}

fn resp_status(o: &TOp) -> u16 {
    o.resp.as_ref().map(|r| r.status).unwrap_or(status::OK)
}

fn extras_u32(req: &Request, off: usize) -> u32 {
    let e = &req.extras;
    if e.len() >= off + 4 {
        u32::from_be_bytes([e[off], e[off + 1], e[off + 2], e[off + 3]])
    } else {
        0
    }
}

fn extras_u64(req: &Request, off: usize) -> u64 {
    let e = &req.extras;
    if e.len() >= off + 8 {
        let mut a = [0u8; 8];
        a.copy_from_slice(&e[off..off + 8]);
        u64::from_be_bytes(a)
    } else {
        0
    }
}

/// Cache::set semantics of memc-rs at one instant; returns false when the
/// observed response is impossible.
fn do_set(st: &mut RState, key: &[u8], value: Vec<u8>, flags: Option<u32>, req_cas: u64, o: &TOp) -> bool {
    let rs = resp_status(o);
    let new_cas = o.resp.as_ref().map(|r| r.cas);
    if req_cas != 0 && !st.items.contains_key(key) && st.ghosts.contains(key) {
        // compared against an expired, uncollected record: either outcome
        if rs == status::EXISTS || rs == status::NOT_FOUND {
            return true;
        }
    }
    if req_cas != 0 {
        if let Some(it) = st.items.get(key) {
            let matches = it.cas.map(|c| c == req_cas).unwrap_or(true);
            if !matches {
                return rs == status::EXISTS;
            }
            if rs == status::EXISTS && it.cas.is_some() {
                return false;
            }
        }
    }
    if req_cas != 0 && !st.items.contains_key(key) && rs == status::NOT_FOUND {
        // a server may refuse a CAS-carrying store of a missing key (memcached does)
        return true;
    }
    if rs != status::OK {
        return false;
    }
    st.items.insert(key.to_vec(), RItem { value, flags, cas: new_cas });
    st.ghosts.remove(key);
    true
}

/// The read step of a split command at one instant. Returns None when the
/// observed response is impossible, Some(None) when the command completes
/// without a write step, Some(Some(p)) when a write step is pending.
fn read_step(st: &RState, o: &TOp) -> Option<Option<Pending>> {
    let info = op_info(o.req.opcode);
    let key = o.req.key.clone();
    let cur = st.items.get(&key);
    let rs = resp_status(o);
    match info.kind {
        Kind::Add => match cur {
            Some(_) => {
                if rs == status::EXISTS {
                    Some(None)
                } else {
                    None
                }
            }
            None => Some(Some(Pending::Write {
                key,
                value: o.req.value.clone(),
                flags: Some(extras_u32(&o.req, 0)),
                req_cas: o.req.cas,
            })),
        },
        Kind::Replace => match cur {
            None => {
                if rs == status::NOT_FOUND {
                    Some(None)
                } else {
                    None
                }
            }
            Some(_) => Some(Some(Pending::Write {
                key,
                value: o.req.value.clone(),
                flags: Some(extras_u32(&o.req, 0)),
                req_cas: o.req.cas,
            })),
        },
        Kind::Append | Kind::Prepend => match cur {
            None => {
                if rs == status::NOT_FOUND || rs == status::NOT_STORED {
                    Some(None)
                } else {
                    None
                }
            }
            Some(it) => {
                let mut v = Vec::new();
                if info.kind == Kind::Append {
                    v.extend_from_slice(&it.value);
                    v.extend_from_slice(&o.req.value);
                } else {
                    v.extend_from_slice(&o.req.value);
                    v.extend_from_slice(&it.value);
                }
                Some(Some(Pending::Write {
                    key,
                    value: v,
                    flags: it.flags,
                    req_cas: o.req.cas,
                }))
            }
        },
        Kind::Incr | Kind::Decr => {
            let delta = extras_u64(&o.req, 0);
            let initial = extras_u64(&o.req, 8);
            let exp = extras_u32(&o.req, 16);
            match cur {
                None => {
                    if exp == 0xffff_ffff {
                        if rs == status::NOT_FOUND {
                            Some(None)
                        } else {
                            None
                        }
                    } else {
                        if let Some(g) = o.resp.as_ref().and_then(|r| r.counter()) {
                            if g != initial {
                                return None;
                            }
                        }
                        Some(Some(Pending::Write {
                            key,
                            value: initial.to_string().into_bytes(),
                            flags: None,
                            req_cas: 0,
                        }))
                    }
                }
                Some(it) => {
                    let base = match classify_number(&it.value) {
                        Num::Numeric(v) => v,
                        Num::Unclear(Some(v)) => v,
                        _ => {
                            return if rs == status::NON_NUMERIC { Some(None) } else { None };
                        }
                    };
                    let want = if info.kind == Kind::Incr { base.wrapping_add(delta) } else { base.saturating_sub(delta) };
                    if rs == status::OK {
                        if let Some(g) = o.resp.as_ref().and_then(|r| r.counter()) {
                            if g != want {
                                return None;
                            }
                        }
                    }
                    Some(Some(Pending::Write {
                        key,
                        value: want.to_string().into_bytes(),
                        flags: it.flags,
                        req_cas: o.req.cas,
                    }))
                }
            }
        }
        _ => None,
    }
}

/// A command that is not split, applied atomically to the relaxed state.
fn atomic_step(st: &mut RState, o: &TOp) -> bool {
    let info = op_info(o.req.opcode);
    let key = o.req.key.clone();
    let rs = resp_status(o);
    match info.kind {
        Kind::Get => match (st.items.get(&key), o.resp.as_ref()) {
            (None, None) => true,
            (None, Some(r)) => r.status == status::NOT_FOUND,
            (Some(_), None) => false,
            (Some(it), Some(r)) => {
                r.status == status::OK
                    && r.value() == it.value.as_slice()
                    && it.cas.map(|c| c == r.cas).unwrap_or(true)
                    && match (it.flags, r.flags()) {
                        (Some(a), Some(b)) => a == b,
                        _ => true,
                    }
            }
        },
        Kind::Set => do_set(st, &key, o.req.value.clone(), Some(extras_u32(&o.req, 0)), o.req.cas, o),
        Kind::Delete => match st.items.get(&key) {
            None if st.ghosts.contains(&key) => {
                if rs == status::OK {
                    st.ghosts.remove(&key);
                    true
                } else {
                    rs == status::NOT_FOUND || (rs == status::EXISTS && o.req.cas != 0)
                }
            }
            None => rs == status::NOT_FOUND,
            Some(it) => {
                let matches = o.req.cas == 0 || it.cas.map(|c| c == o.req.cas).unwrap_or(true);
                if matches && rs == status::OK {
                    st.items.remove(&key);
                    true
                } else if !matches || it.cas.is_none() {
                    rs == status::EXISTS
                } else {
                    false
                }
            }
        },
        Kind::Flush => {
            st.items.clear();
            st.ghosts.clear();
            true
        }
        Kind::Add | Kind::Replace | Kind::Append | Kind::Prepend | Kind::Incr | Kind::Decr => {
            // both steps at one instant
            match read_step(st, o) {
                None => false,
                Some(None) => true,
                Some(Some(Pending::Write { key, value, flags, req_cas })) => do_set(st, &key, value, flags, req_cas, o),
            }
        }
        _ => true,
    }
}

#[derive(Clone)]
struct Ev2 {
    op: usize,
    /// 0 = whole op, 1 = read step, 2 = write step
    phase: u8,
}

fn relaxed_search(
    ops: &[TOp],
    split: &[bool],
    state: &RState,
    // per op: 0 not started, 1 read done (pending write), 2 finished
    prog: &mut Vec<u8>,
    pend: &mut Vec<Option<Pending>>,
    finals: &[(Request, Option<Response>)],
    tried: &mut u64,
) -> bool {
    if prog.iter().all(|p| *p == 2) {
        *tried += 1;
        // final reads
        for (req, resp) in finals {
            let it = state.items.get(&req.key);
            let ok = match (it, resp) {
                (None, None) => true,
                (None, Some(r)) => r.status == status::NOT_FOUND,
                (Some(_), None) => false,
                (Some(it), Some(r)) => r.status == status::OK && r.value() == it.value.as_slice() && it.cas.map(|c| c == r.cas).unwrap_or(true),
            };
            if !ok {
                return false;
            }
        }
        return true;
    }
    if *tried > 200_000 {
        return false;
    }
    let min_ret = ops.iter().enumerate().filter(|(i, _)| prog[*i] != 2).map(|(_, o)| o.ret).min().unwrap_or(u32::MAX);
    for i in 0..ops.len() {
        if prog[i] == 2 {
            continue;
        }
        if prog[i] == 0 && ops[i].inv > min_ret {
            continue;
        }
        let mut st = state.clone();
        if prog[i] == 0 {
            if split[i] {
                match read_step(&st, &ops[i]) {
                    None => continue,
                    Some(None) => {
                        prog[i] = 2;
                        if relaxed_search(ops, split, &st, prog, pend, finals, tried) {
                            return true;
                        }
                        prog[i] = 0;
                    }
                    Some(Some(p)) => {
                        prog[i] = 1;
                        pend[i] = Some(p);
                        if relaxed_search(ops, split, &st, prog, pend, finals, tried) {
                            return true;
                        }
                        pend[i] = None;
                        prog[i] = 0;
                    }
                }
            } else {
                if !atomic_step(&mut st, &ops[i]) {
                    continue;
                }
                prog[i] = 2;
                if relaxed_search(ops, split, &st, prog, pend, finals, tried) {
                    return true;
                }
                prog[i] = 0;
            }
        } else {
            // pending write step
            let p = pend[i].clone().unwrap();
            let Pending::Write { key, value, flags, req_cas } = p;
            if !do_set(&mut st, &key, value, flags, req_cas, &ops[i]) {
                continue;
            }
            prog[i] = 2;
            let saved = pend[i].take();
            if relaxed_search(ops, split, &st, prog, pend, finals, tried) {
                return true;
            }
            pend[i] = saved;
            prog[i] = 1;
        }
    }
    false
}

fn is_rmw(kind: Kind) -> bool {
    matches!(kind, Kind::Add | Kind::Replace | Kind::Append | Kind::Prepend | Kind::Incr | Kind::Decr)
}

pub fn kind_name(kind: Kind) -> &'static str {
    match kind {
        Kind::Add => "add",
        Kind::Replace => "replace",
        Kind::Append => "append",
        Kind::Prepend => "prepend",
        Kind::Incr => "incr",
        Kind::Decr => "decr",
        _ => "other",
    }
}

/// Smallest set of read-modify-write command kinds whose split explains the
/// history; None when no split explains it.
pub fn attribute_rmw(h: &THistory) -> Option<Vec<&'static str>> {
    let ops: Vec<TOp> = h.ops.iter().filter(|o| o.completed && o.panic.is_none()).cloned().collect();
    let mut kinds: Vec<Kind> = ops.iter().map(|o| op_info(o.req.opcode).kind).filter(|k| is_rmw(*k)).collect();
    kinds.sort();
    kinds.dedup();
    if kinds.is_empty() {
        return None;
    }
    // initial relaxed state from the model after initialisation
    let mut st = RState {
        items: BTreeMap::new(),
        ghosts: Default::default(),
    };
    for (k, it) in h.init_model.items.iter() {
        if it.unknown {
            continue;
        }
        // expired-but-uncollected items are absent for every presence test
        if h.init_model.now >= it.hi {
            st.ghosts.insert(k.clone());
            continue;
        }
        st.items.insert(
            k.clone(),
            RItem {
                value: it.value.clone(),
                flags: it.flags,
                cas: it.cas,
            },
        );
    }
    // subsets in order of size
    let n = kinds.len();
    let mut subsets: Vec<u32> = (1..(1u32 << n)).collect();
    subsets.sort_by_key(|m| m.count_ones());
    for mask in subsets {
        let chosen: Vec<Kind> = (0..n).filter(|b| mask & (1 << b) != 0).map(|b| kinds[b]).collect();
        let split: Vec<bool> = ops.iter().map(|o| chosen.contains(&op_info(o.req.opcode).kind)).collect();
        let mut prog = vec![0u8; ops.len()];
        let mut pend: Vec<Option<Pending>> = vec![None; ops.len()];
        let mut tried = 0u64;
        if relaxed_search(&ops, &split, &st, &mut prog, &mut pend, &h.final_reads, &mut tried) {
            return Some(chosen.into_iter().map(kind_name).collect());
        }
    }
    None
}
