//! Independent framing model (§6.2): what a header announces, which frames may
//! never be executed, and what a well-formed answer to a given request is.
#![allow(dead_code)]
use crate::wire::{op, op_info, status, Kind, Request, Response};

#[derive(Clone, Copy, Debug, PartialEq, Eq, PartialOrd, Ord, Hash)]
pub enum FrameClass {
    /// wrong magic or non-zero data type: never executed
    HeaderInvalid,
    /// opcode not in the protocol table: never executed
    UnknownOp,
    /// body length above the item size limit: refused with 0x03, body skipped
    TooLarge,
    /// extras > 20, key > 250, missing required key, body < key + extras: never executed
    BodyInvalid,
    /// in the table, not implemented by memcrs (touch, GAT*, SASL*)
    Unimplemented,
    /// passes every listed validity rule but has the wrong shape for its opcode
    ShapeOdd,
    Normal,
}

pub fn key_required(kind: Kind) -> bool {
    matches!(
        kind,
        Kind::Get
            | Kind::Set
            | Kind::Add
            | Kind::Replace
            | Kind::Append
            | Kind::Prepend
            | Kind::Delete
            | Kind::Incr
            | Kind::Decr
    )
}

pub fn classify(req: &Request, item_limit: u32) -> FrameClass {
    if req.magic != 0x80 || req.data_type != 0 {
        return FrameClass::HeaderInvalid;
    }
    let info = op_info(req.opcode);
    if info.kind == Kind::Unknown {
        return FrameClass::UnknownOp;
    }
    let kl = req.key_len() as u32;
    let el = req.extras_len() as u32;
    let bl = req.body_len();
    if bl > item_limit {
        return FrameClass::TooLarge;
    }
    if el > 20 || kl > 250 || bl < kl + el {
        return FrameClass::BodyInvalid;
    }
    if info.kind == Kind::Unimplemented {
        return FrameClass::Unimplemented;
    }
    if key_required(info.kind) && kl == 0 {
        return FrameClass::BodyInvalid;
    }
    let vl = bl - kl - el;
    let ok = match info.kind {
        Kind::Get | Kind::Delete => el == 0 && vl == 0,
        Kind::Set | Kind::Add | Kind::Replace => el == 8,
        Kind::Append | Kind::Prepend => el == 0,
        Kind::Incr | Kind::Decr => el == 20 && vl == 0,
        Kind::Flush => (el == 0 || el == 4) && kl == 0 && vl == 0,
        Kind::Noop | Kind::Version | Kind::Stat | Kind::Quit => bl == 0 && kl == 0 && el == 0,
        Kind::Unimplemented | Kind::Unknown => true,
    };
    // overrides that make the announced lengths disagree with the bytes the
    // harness actually put into the parts do not matter here: only the header counts
    if ok {
        FrameClass::Normal
    } else {
        FrameClass::ShapeOdd
    }
}

/// Number of bytes this frame occupies in the stream according to its header.
pub fn framed_len(req: &Request) -> usize {
    24 + req.body_len() as usize
}

fn is_text(b: &[u8]) -> bool {
    !b.is_empty() && std::str::from_utf8(b).map(|s| s.chars().all(|c| !c.is_control())).unwrap_or(false)
}

/// C11: is `r` a well-formed, correctly correlated answer to `req`?
pub fn validate_response(req: &Request, r: &Response) -> Result<(), String> {
    crate::wire::frame_wellformed(r)?;
    if r.opcode != req.opcode {
        return Err(format!("opcode {:#04x} does not echo the request's {:#04x}", r.opcode, req.opcode));
    }
    if r.opaque != req.opaque {
        return Err(format!("opaque {:#010x} does not echo the request's {:#010x}", r.opaque, req.opaque));
    }
    let info = op_info(req.opcode);
    if r.status != status::OK {
        if info.with_key && r.extras_len == 0 && r.key_len as usize == req.key.len() && r.key() == req.key.as_slice() {
            // a get-key miss may echo the key (memcached does); the rest is the message text or nothing
            let rest = r.value();
            if rest.is_empty() || is_text(rest) {
                return Ok(());
            }
            return Err("get-key miss echoes the key but the rest of the body is not a message text".into());
        }
        if r.extras_len != 0 || r.key_len != 0 {
            return Err(format!("error response carries extras {} / key {}", r.extras_len, r.key_len));
        }
        if !is_text(&r.body) {
            return Err(format!("error response body is not a message text: {:?}", crate::wire::hex_short(&r.body, 24)));
        }
        return Ok(());
    }
    match info.kind {
        Kind::Get => {
            if r.extras_len != 4 {
                return Err(format!("hit carries {} extras bytes, expected 4 flag bytes", r.extras_len));
            }
            if info.with_key {
                if r.key() != req.key.as_slice() {
                    return Err("get-key hit does not echo the key".into());
                }
            } else if r.key_len != 0 {
                return Err(format!("plain get hit carries a key of {} bytes", r.key_len));
            }
            if r.cas == 0 {
                return Err("hit with CAS 0".into());
            }
        }
        Kind::Incr | Kind::Decr => {
            if r.extras_len != 0 || r.key_len != 0 || r.body_len != 8 {
                return Err(format!("counter response has extras {} key {} body {}, expected an 8-byte value", r.extras_len, r.key_len, r.body_len));
            }
        }
        Kind::Version => {
            if r.extras_len != 0 || r.key_len != 0 || !is_text(&r.body) {
                return Err("version response is not a bare text body".into());
            }
        }
        Kind::Set
        | Kind::Add
        | Kind::Replace
        | Kind::Append
        | Kind::Prepend
        | Kind::Delete
        | Kind::Flush
        | Kind::Noop
        | Kind::Quit => {
            if r.body_len != 0 || r.extras_len != 0 || r.key_len != 0 {
                return Err(format!("{:?} success response carries a body (extras {} key {} body {})", info.kind, r.extras_len, r.key_len, r.body_len));
            }
        }
        // stat: one or more well-formed frames (memcrs answers like version)
        Kind::Stat | Kind::Unimplemented | Kind::Unknown => {}
    }
    Ok(())
}

pub fn is_quit(opcode: u8) -> bool {
    opcode == op::QUIT || opcode == op::QUITQ
}
