//! Counting allocator (N9): per-thread live bytes, high-water mark and largest
//! single request, so that a length-proportional allocation driven by a
//! client-announced length is visible without touching the memory.
use std::alloc::{GlobalAlloc, Layout, System};
use std::cell::Cell;

pub struct Counting;

thread_local! {
    static LIVE: Cell<usize> = const { Cell::new(0) };
    static PEAK: Cell<usize> = const { Cell::new(0) };
    static MAX_ONE: Cell<usize> = const { Cell::new(0) };
}

fn on_alloc(size: usize) {
    let _ = LIVE.try_with(|l| {
        let v = l.get().saturating_add(size);
        l.set(v);
        let _ = PEAK.try_with(|p| {
            if v > p.get() {
                p.set(v)
            }
        });
    });
    let _ = MAX_ONE.try_with(|m| {
        if size > m.get() {
            m.set(size)
        }
    });
}

fn on_free(size: usize) {
    let _ = LIVE.try_with(|l| l.set(l.get().saturating_sub(size)));
}

unsafe impl GlobalAlloc for Counting {
    unsafe fn alloc(&self, layout: Layout) -> *mut u8 {
        on_alloc(layout.size());
        System.alloc(layout)
    }
    unsafe fn dealloc(&self, ptr: *mut u8, layout: Layout) {
        on_free(layout.size());
        System.dealloc(ptr, layout)
    }
    unsafe fn alloc_zeroed(&self, layout: Layout) -> *mut u8 {
        on_alloc(layout.size());
        System.alloc_zeroed(layout)
    }
    unsafe fn realloc(&self, ptr: *mut u8, layout: Layout, new_size: usize) -> *mut u8 {
        on_free(layout.size());
        on_alloc(new_size);
        System.realloc(ptr, layout, new_size)
    }
}

/// Start a measurement window on the calling thread.
pub fn reset() -> usize {
    let live = LIVE.with(|l| l.get());
    PEAK.with(|p| p.set(live));
    MAX_ONE.with(|m| m.set(0));
    live
}

/// (peak live bytes above the baseline, largest single allocation) since `reset`.
pub fn window(baseline: usize) -> (usize, usize) {
    (PEAK.with(|p| p.get()).saturating_sub(baseline), MAX_ONE.with(|m| m.get()))
}
