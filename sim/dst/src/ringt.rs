//! Ring T: 2-3 simulated clients, each a real OS thread that is parked except
//! when the scheduler has granted it the baton, executing wire requests through
//! the real codec -> BinaryHandler -> MemcStore -> [RandomPolicy] -> MemoryStore
//! -> DashMap. The scheduler owns every shard-lock acquire, every access to the
//! shared atomics, every clock read and operation invoke/return.
#![allow(dead_code)]
use crate::model::{LossMode, Model};
use crate::scenario::{Knobs, SymReq};
use crate::stack::{self, build_store, SimTimer};
use crate::wire::{self, parse_response, Request, Response};
use bytes::BytesMut;
use memcrs::memcache::store::MemcStore;
use memcrs::memcache_server::handler::BinaryHandler;
use memcrs::protocol::binary_codec::MemcacheBinaryCodec;
use serde_json::{json, Value};
use simseam::sched::{self, Abort, Chooser, RunReport, Sched, SchedAbort};
use std::panic::{catch_unwind, resume_unwind, AssertUnwindSafe};
use std::sync::{Arc, Mutex};
use std::time::Duration;
use tokio_util::codec::{Decoder, Encoder};

#[derive(Clone, Debug, PartialEq, Eq)]
pub enum SchedSpec {
    Random { seed: u64 },
    Pct { seed: u64, depth: u8 },
    Replay { list: Vec<u8> },
}

impl SchedSpec {
    pub fn to_json(&self) -> Value {
        match self {
            SchedSpec::Random { seed } => json!({"random": seed}),
            SchedSpec::Pct { seed, depth } => json!({"pct": seed, "depth": depth}),
            SchedSpec::Replay { list } => json!({"replay": list.iter().map(|x| (b'0' + x) as char).collect::<String>()}),
        }
    }
    pub fn from_json(v: &Value) -> Option<SchedSpec> {
        if let Some(s) = v.get("random") {
            return Some(SchedSpec::Random { seed: s.as_u64()? });
        }
        if let Some(s) = v.get("pct") {
            return Some(SchedSpec::Pct {
                seed: s.as_u64()?,
                depth: v.get("depth")?.as_u64()? as u8,
            });
        }
        if let Some(s) = v.get("replay") {
            return Some(SchedSpec::Replay {
                list: s.as_str()?.bytes().map(|b| b - b'0').collect(),
            });
        }
        None
    }
}

#[derive(Clone, Debug, PartialEq, Eq)]
pub enum InitOp {
    Req(SymReq),
    AdvanceSecs(u64),
}

impl InitOp {
    fn to_json(&self) -> Value {
        match self {
            InitOp::Req(r) => json!({"req": r.to_json()}),
            InitOp::AdvanceSecs(s) => json!({"advance": s}),
        }
    }
    fn from_json(v: &Value) -> Option<InitOp> {
        if let Some(r) = v.get("req") {
            return Some(InitOp::Req(SymReq::from_json(r)?));
        }
        Some(InitOp::AdvanceSecs(v.get("advance")?.as_u64()?))
    }
}

#[derive(Clone, Debug, PartialEq, Eq)]
pub struct TProgram {
    pub knobs: Knobs,
    pub init: Vec<InitOp>,
    pub clients: Vec<Vec<SymReq>>,
    pub keys: Vec<Vec<u8>>,
    pub sched: SchedSpec,
    /// commands run one after the other once every client has finished (C14:
    /// the sequential bound must hold again after the concurrent phase)
    pub settle: Vec<SymReq>,
}

impl TProgram {
    pub fn to_json(&self) -> Value {
        let mut v = json!({
            "knobs": self.knobs.to_json(),
            "init": self.init.iter().map(|i| i.to_json()).collect::<Vec<_>>(),
            "clients": self.clients.iter().map(|c| c.iter().map(|r| r.to_json()).collect::<Vec<_>>()).collect::<Vec<_>>(),
            "keys": self.keys.iter().map(|k| wire::hex(k)).collect::<Vec<_>>(),
            "sched": self.sched.to_json(),
        });
        if !self.settle.is_empty() {
            v["settle"] = Value::Array(self.settle.iter().map(|r| r.to_json()).collect());
        }
        v
    }
    pub fn from_json(v: &Value) -> Option<TProgram> {
        let knobs = Knobs::from_json(v.get("knobs")?)?;
        let mut init = Vec::new();
        for i in v.get("init")?.as_array()? {
            init.push(InitOp::from_json(i)?);
        }
        let mut clients = Vec::new();
        for c in v.get("clients")?.as_array()? {
            let mut rs = Vec::new();
            for r in c.as_array()? {
                rs.push(SymReq::from_json(r)?);
            }
            clients.push(rs);
        }
        let mut keys = Vec::new();
        for k in v.get("keys")?.as_array()? {
            keys.push(wire::unhex(k.as_str()?)?);
        }
        let mut settle = Vec::new();
        if let Some(a) = v.get("settle").and_then(|x| x.as_array()) {
            for r in a {
                settle.push(SymReq::from_json(r)?);
            }
        }
        Some(TProgram {
            knobs,
            init,
            clients,
            keys,
            sched: SchedSpec::from_json(v.get("sched")?)?,
            settle,
        })
    }
}

/// One executed operation of the concurrent history.
#[derive(Clone, Debug)]
pub struct TOp {
    pub client: usize,
    pub index: usize,
    pub req: Request,
    pub resp: Option<Response>,
    pub inv: u32,
    pub ret: u32,
    pub panic: Option<String>,
    pub completed: bool,
}

#[derive(Clone, Debug)]
pub struct THistory {
    /// model state after the sequential initialisation
    pub init_model: Model,
    pub ops: Vec<TOp>,
    /// sequential reads of every key after all clients finished
    pub final_reads: Vec<(Request, Option<Response>)>,
    pub report: RunReport,
    /// when every client had finished (before the settle commands and the final reads)
    pub stored_bytes_end: u64,
    pub items_end: u64,
    pub accounted_end: Option<u64>,
    pub init_violations: Vec<crate::model::Violation>,
    pub start_stored_bytes: u64,
    /// after each settle command: (stored bytes, size of the record it wrote, acknowledged)
    pub settle: Vec<(u64, u64, bool)>,
}

fn exec_one(codec: &mut MemcacheBinaryCodec, handler: &BinaryHandler, bytes: &[u8]) -> Option<Response> {
    let mut buf = BytesMut::from(bytes);
    match codec.decode(&mut buf) {
        Ok(Some(req)) => match handler.handle_request(req) {
            Some(resp) => {
                let mut dst = BytesMut::new();
                let _ = codec.encode(resp, &mut dst);
                match parse_response(&dst) {
                    Ok(Some((r, _))) => Some(r),
                    _ => None,
                }
            }
            None => None,
        },
        _ => None,
    }
}

struct ExitGuard;
impl Drop for ExitGuard {
    fn drop(&mut self) {
        sched::exit();
    }
}

/// Pseudo-opcode of a client step that advances the simulated clock by `cas`
/// seconds (the clock moving while other clients are inside the store).
pub const TICK: u8 = 0xfe;

pub fn run_program(p: &TProgram, budget: u32) -> THistory {
    let timer = Arc::new(SimTimer::new(1));
    let stack = build_store(&p.knobs, timer.clone());
    let store = Arc::new(MemcStore::new(stack.cache.clone()));
    let mut model = Model::new(p.knobs.item_limit, LossMode::Strict);
    model.set_now(1);
    // ---- sequential initialisation (no scheduler on this thread)
    {
        let mut codec = MemcacheBinaryCodec::new(p.knobs.item_limit);
        let handler = BinaryHandler::new(store.clone());
        for op in &p.init {
            match op {
                InitOp::Req(sr) => {
                    let lit = sr.materialise(&model);
                    let resp = stack::guarded(|| exec_one(&mut codec, &handler, &lit.encode())).flatten();
                    model.apply(&lit, resp.as_ref());
                }
                InitOp::AdvanceSecs(s) => {
                    timer.add(*s);
                    model.advance(*s);
                }
            }
        }
    }
    let mut init_violations = model.take_violations();
    let start_stored_bytes = stack.probe().stored_bytes;
    // ---- materialise client requests against the initial state
    let lits: Vec<Vec<Request>> = p.clients.iter().map(|c| c.iter().map(|r| r.materialise(&model)).collect()).collect();
    let n = p.clients.len();
    let chooser = match &p.sched {
        SchedSpec::Random { seed } => Chooser::random(*seed),
        SchedSpec::Pct { seed, depth } => Chooser::pct(*seed, n, *depth as usize, 60),
        SchedSpec::Replay { list } => Chooser::replay(list.clone()),
    };
    let sched = Sched::new(n, chooser, budget);
    let results: Arc<Mutex<Vec<TOp>>> = Arc::new(Mutex::new(Vec::new()));
    let mut handles = Vec::new();
    for (t, reqs) in lits.iter().enumerate() {
        let s = sched.clone();
        let reqs = reqs.clone();
        let store = store.clone();
        let results = results.clone();
        let timer_t = timer.clone();
        let limit = p.knobs.item_limit;
        let rng_seed = p.knobs.rng_seed ^ ((t as u64 + 1) * 0x9e37_79b9);
        let h = std::thread::Builder::new()
            .stack_size(256 * 1024)
            .spawn(move || {
                stack::install_thread();
                stack::capture_panics(true);
                simseam::rng::seed(rng_seed);
                let r = catch_unwind(AssertUnwindSafe(|| {
                    sched::enter(&s, t);
                    let _g = ExitGuard;
                    let mut codec = MemcacheBinaryCodec::new(limit);
                    let handler = BinaryHandler::new(store);
                    for (i, req) in reqs.iter().enumerate() {
                        let bytes = req.encode();
                        let inv = sched::op_point(true, (t * 16 + i) as u32);
                        let mut op = TOp {
                            client: t,
                            index: i,
                            req: req.clone(),
                            resp: None,
                            inv,
                            ret: u32::MAX,
                            panic: None,
                            completed: false,
                        };
                        let res = catch_unwind(AssertUnwindSafe(|| {
                            if req.opcode == TICK {
                                simseam::sched::clock_point();
                                timer_t.add(req.cas);
                                None
                            } else {
                                exec_one(&mut codec, &handler, &bytes)
                            }
                        }));
                        match res {
                            Ok(r) => {
                                op.resp = r;
                                op.completed = true;
                            }
                            Err(e) => {
                                if e.downcast_ref::<SchedAbort>().is_some() {
                                    results.lock().unwrap().push(op);
                                    resume_unwind(e);
                                }
                                op.panic = Some(stack::take_panics().join("; "));
                                op.completed = true;
                            }
                        }
                        op.ret = sched::op_point(false, (t * 16 + i) as u32);
                        results.lock().unwrap().push(op);
                    }
                }));
                let _ = r;
                stack::capture_panics(false);
            })
            .expect("spawn");
        handles.push(h);
    }
    sched.wait_registered();
    sched.kick();
    let report = sched.wait_done(Duration::from_secs(30));
    if !report.timed_out {
        for h in handles {
            let _ = h.join();
        }
    }
    let mut ops = results.lock().unwrap().clone();
    ops.sort_by_key(|o| (o.inv, o.client, o.index));
    let after_clients = stack.probe();
    // ---- sequential settle commands
    let mut settle = Vec::new();
    if report.abort.is_none() && !report.timed_out {
        let mut codec = MemcacheBinaryCodec::new(p.knobs.item_limit);
        let handler = BinaryHandler::new(store.clone());
        for sr in &p.settle {
            let lit = sr.materialise(&model);
            let resp = stack::guarded(|| exec_one(&mut codec, &handler, &lit.encode())).flatten();
            let ok = resp.as_ref().map(|r| r.status == 0).unwrap_or(false);
            settle.push((stack.probe().stored_bytes, 24 + lit.value.len() as u64, ok));
        }
    }
    // ---- final sequential reads
    let mut final_reads = Vec::new();
    if report.abort.is_none() && !report.timed_out {
        let mut codec = MemcacheBinaryCodec::new(p.knobs.item_limit);
        let handler = BinaryHandler::new(store.clone());
        for (i, k) in p.keys.iter().enumerate() {
            let mut r = Request::get(wire::op::GET, k);
            r.opaque = 0xf1a1_0000 | i as u32;
            let resp = stack::guarded(|| exec_one(&mut codec, &handler, &r.encode())).flatten();
            final_reads.push((r, resp));
        }
    }
    let probe = stack.probe();
    // panics of the code under test inside the harness's own sequential calls (initialisation,
    // probes, settle stores, final reads)
    for p in stack::take_probe_panics() {
        init_violations.push(crate::model::Violation::new("C10", "panic", format!("panic inside the server (sequential phase of the program): {}", p)));
    }
    THistory {
        init_model: model,
        ops,
        final_reads,
        report,
        stored_bytes_end: after_clients.stored_bytes,
        items_end: after_clients.items,
        accounted_end: probe.accounted,
        init_violations,
        start_stored_bytes,
        settle,
    }
}

pub fn abort_text(a: &Abort) -> String {
    match a {
        Abort::Deadlock(d) => format!("deadlock: {}", d),
        Abort::Budget => "step budget exhausted (livelock)".to_string(),
    }
}
