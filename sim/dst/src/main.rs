fn main(){ println!("hi"); }
