mod alloc;
mod check;
mod checks;
mod driver;
mod framing;
mod gen;
mod lin;
mod minimise;
mod model;
mod ringh;
mod ringn;
mod ringt;
mod rng;
mod scenario;
mod segment;
mod stack;
mod wire;

use check::{RunConfig, Tier, DEFAULT_SEED};

#[global_allocator]
static GLOBAL: alloc::Counting = alloc::Counting;

fn usage() -> ! {
    eprintln!("usage: dst check <Cxx> [--tier quick|thorough] [--seed N] [--runs N] [--jobs N] [--no-evidence]\n       dst replay <file>\n       dst list");
    std::process::exit(2);
}

fn main() {
    stack::install_panic_hook();
    let args: Vec<String> = std::env::args().collect();
    if args.len() < 2 {
        usage();
    }
    let verif_dir = std::env::var("VERIF_DIR").unwrap_or_else(|_| "/verif".to_string());
    match args[1].as_str() {
        "list" => {
            for c in checks::all() {
                println!("{}", c.id());
            }
        }
        "check" => {
            if args.len() < 3 {
                usage();
            }
            let id = args[2].clone();
            let mut tier = match std::env::var("VERIF_TIER").ok().as_deref() {
                Some("thorough") => Tier::Thorough,
                _ => Tier::Quick,
            };
            let mut seed = std::env::var("VERIF_SEED")
                .ok()
                .and_then(|s| s.trim().parse::<u64>().ok())
                .unwrap_or(DEFAULT_SEED);
            let mut runs = None;
            let mut jobs = std::env::var("VERIF_JOBS")
                .ok()
                .and_then(|s| s.parse::<usize>().ok())
                .unwrap_or_else(|| std::thread::available_parallelism().map(|n| n.get()).unwrap_or(8).min(16));
            let mut write_evidence = true;
            let mut i = 3;
            while i < args.len() {
                match args[i].as_str() {
                    "--tier" => {
                        i += 1;
                        tier = match args.get(i).map(|s| s.as_str()) {
                            Some("quick") => Tier::Quick,
                            Some("thorough") => Tier::Thorough,
                            _ => usage(),
                        };
                    }
                    "--seed" => {
                        i += 1;
                        seed = args.get(i).and_then(|s| s.parse().ok()).unwrap_or_else(|| usage());
                    }
                    "--runs" => {
                        i += 1;
                        runs = Some(args.get(i).and_then(|s| s.parse().ok()).unwrap_or_else(|| usage()));
                    }
                    "--jobs" => {
                        i += 1;
                        jobs = args.get(i).and_then(|s| s.parse().ok()).unwrap_or_else(|| usage());
                    }
                    "--no-evidence" => write_evidence = false,
                    _ => usage(),
                }
                i += 1;
            }
            let chk = match checks::by_id(&id) {
                Some(c) => c,
                None => {
                    eprintln!("harness error: no check for {}", id);
                    std::process::exit(2);
                }
            };
            let cfg = RunConfig {
                tier,
                seed,
                jobs,
                verif_dir,
                runs_override: runs,
                write_evidence,
                minimise_budget_s: 30.0,
            };
            let code = check::run_check(chk.as_ref(), &cfg);
            std::process::exit(code);
        }
        "scan" => {
            let id = args.get(2).cloned().unwrap_or_else(|| usage());
            let n: u64 = args.get(3).and_then(|s| s.parse().ok()).unwrap_or(500);
            let chk = checks::by_id(&id).unwrap_or_else(|| usage());
            check::scan(chk.as_ref(), DEFAULT_SEED, n, Tier::Quick);
        }
        "case" => {
            // dst case <Cxx> <index> [seed]: print the explicit case of one run as a replay document
            let id = args.get(2).cloned().unwrap_or_else(|| usage());
            let idx: u64 = args.get(3).and_then(|s| s.parse().ok()).unwrap_or(0);
            let seed: u64 = args.get(4).and_then(|s| s.parse().ok()).unwrap_or(DEFAULT_SEED);
            let chk = checks::by_id(&id).unwrap_or_else(|| usage());
            let rs = check::run_seed(seed, chk.id(), idx);
            let tier = if args.get(5).map(|s| s.as_str()) == Some("thorough") { Tier::Thorough } else { Tier::Quick };
            let sig = args.get(6).cloned().unwrap_or_default();
            let case = chk.generate(rs, idx, tier);
            println!("{}", serde_json::json!({"property": id, "signature": sig, "seed": seed, "run_index": idx, "tier": if tier == Tier::Thorough { "thorough" } else { "quick" }, "case": case.to_json()}));
        }
        "digest" => {
            // dst digest <Cxx> <runs> <jobs> <seed>
            let id = args.get(2).cloned().unwrap_or_else(|| usage());
            let n: u64 = args.get(3).and_then(|s| s.parse().ok()).unwrap_or(200);
            let jobs: usize = args.get(4).and_then(|s| s.parse().ok()).unwrap_or(1);
            let seed: u64 = args.get(5).and_then(|s| s.parse().ok()).unwrap_or(DEFAULT_SEED);
            let chk = checks::by_id(&id).unwrap_or_else(|| usage());
            check::digest(chk.as_ref(), seed, n, jobs, Tier::Quick);
        }
        "replay" => {
            if args.len() < 3 {
                usage();
            }
            let text = match std::fs::read_to_string(&args[2]) {
                Ok(t) => t,
                Err(e) => {
                    eprintln!("harness error: cannot read {}: {}", args[2], e);
                    std::process::exit(2);
                }
            };
            let mut doc: serde_json::Value = match serde_json::from_str(&text) {
                Ok(v) => v,
                Err(e) => {
                    eprintln!("harness error: {}", e);
                    std::process::exit(2);
                }
            };
            let id = doc["property"].as_str().unwrap_or("").to_string();
            let chk = match checks::by_id(&id) {
                Some(c) => c,
                None => {
                    eprintln!("harness error: no check for {}", id);
                    std::process::exit(2);
                }
            };
            if let Some(d) = doc.get_mut("case").and_then(|c| c.get_mut("data")).and_then(|d| d.as_object_mut()) {
                d.insert("log".into(), serde_json::json!(true));
            }
            std::process::exit(check::replay(chk.as_ref(), &doc));
        }
        _ => usage(),
    }
}
