//! Minimisation: delta debugging on the explicit case while the same
//! (property, signature) persists.
#![allow(dead_code)]
use crate::check::{Case, Check};
use crate::model::Violation;
use crate::scenario::{Ev, Scenario, Val};
use serde_json::Value;
use std::time::Instant;

fn fails_with(chk: &dyn Check, case: &Case, sig: &str) -> Option<Violation> {
    let out = chk.execute(case);
    out.violations.into_iter().find(|v| chk.signature(v) == sig)
}

/// Greedy fixpoint over the check's shrink candidates.
pub fn minimise(chk: &dyn Check, case: &Case, sig: &str, budget_s: f64) -> (Case, Violation, u64) {
    let t0 = Instant::now();
    let mut best = case.clone();
    let mut best_v = match fails_with(chk, &best, sig) {
        Some(v) => v,
        None => {
            // not reproducible in-process: report as is (replay will tell)
            return (
                best,
                Violation::new("?", "unreproducible", "violation did not reproduce during minimisation".into()),
                0,
            );
        }
    };
    let mut tried = 0u64;
    'outer: loop {
        if t0.elapsed().as_secs_f64() > budget_s {
            break;
        }
        let cands = chk.shrink(&best);
        for c in cands {
            if t0.elapsed().as_secs_f64() > budget_s {
                break 'outer;
            }
            if c.kind == best.kind && c.data == best.data {
                continue;
            }
            tried += 1;
            if let Some(v) = fails_with(chk, &c, sig) {
                best = c;
                best_v = v;
                continue 'outer;
            }
        }
        break;
    }
    (best, best_v, tried)
}

pub fn scenario_of(case: &Case) -> Option<Scenario> {
    case.data.get("scenario").and_then(Scenario::from_json)
}

pub fn with_scenario(case: &Case, sc: &Scenario) -> Case {
    let mut data = case.data.clone();
    if let Value::Object(m) = &mut data {
        m.insert("scenario".into(), sc.to_json());
    }
    Case {
        kind: case.kind.clone(),
        data,
    }
}

/// Candidate simplifications of a scenario-based case, most aggressive first.
pub fn shrink_scenario_case(case: &Case) -> Vec<Case> {
    let sc = match scenario_of(case) {
        Some(s) => s,
        None => return Vec::new(),
    };
    let mut out = Vec::new();
    for s in shrink_scenario(&sc) {
        out.push(with_scenario(case, &s));
    }
    out
}

pub fn shrink_scenario(sc: &Scenario) -> Vec<Scenario> {
    let n = sc.events.len();
    let mut out: Vec<Scenario> = Vec::new();
    // 1. drop chunks (halves, quarters, ...), from the end first. Candidates are
    // whole scenarios (serialised for every trial), so their number is capped;
    // after every accepted candidate the list is rebuilt for the smaller scenario.
    let cap = if n > 64 { 160 } else { 600 };
    let mut chunk = n / 2;
    while chunk >= 1 && out.len() < cap {
        let mut start = n.saturating_sub(chunk);
        loop {
            let mut ev = sc.events.clone();
            let end = (start + chunk).min(ev.len());
            ev.drain(start..end);
            out.push(Scenario {
                knobs: sc.knobs.clone(),
                events: ev,
            });
            if start == 0 || out.len() >= cap {
                break;
            }
            start = start.saturating_sub(chunk);
        }
        if chunk == 1 {
            break;
        }
        chunk /= 2;
    }
    if n > 64 {
        return out;
    }
    // 2. drop a Send together with the Deliver that follows it
    for i in 0..n {
        if let Ev::Send { .. } = sc.events[i] {
            if i + 1 < n {
                if let Ev::Deliver { .. } = sc.events[i + 1] {
                    let mut ev = sc.events.clone();
                    ev.drain(i..=i + 1);
                    out.push(Scenario {
                        knobs: sc.knobs.clone(),
                        events: ev,
                    });
                }
            }
        }
    }
    // 3. simplify single events
    for i in 0..n {
        match &sc.events[i] {
            Ev::Send { c, req } => {
                let mut cands = Vec::new();
                if req.val.len() > 1 {
                    let mut r = req.clone();
                    r.val = Val::Bytes(req.val.bytes()[..1].to_vec());
                    cands.push(r);
                }
                if req.val.len() > 0 {
                    let mut r = req.clone();
                    r.val = Val::Bytes(Vec::new());
                    cands.push(r);
                }
                if req.flags != 0 {
                    let mut r = req.clone();
                    r.flags = 0;
                    cands.push(r);
                }
                if req.key.len() > 1 {
                    // shorten this key consistently everywhere
                    let short = vec![b'a' + (i % 26) as u8];
                    let mut ev = sc.events.clone();
                    let mut clash = false;
                    for e in ev.iter() {
                        if let Ev::Send { req: r2, .. } = e {
                            if r2.key == short {
                                clash = true;
                            }
                        }
                    }
                    if !clash {
                        for e in ev.iter_mut() {
                            if let Ev::Send { req: r2, .. } = e {
                                if r2.key == req.key {
                                    r2.key = short.clone();
                                }
                            }
                        }
                        out.push(Scenario {
                            knobs: sc.knobs.clone(),
                            events: ev,
                        });
                    }
                }
                for r in cands {
                    let mut ev = sc.events.clone();
                    ev[i] = Ev::Send { c: *c, req: r };
                    out.push(Scenario {
                        knobs: sc.knobs.clone(),
                        events: ev,
                    });
                }
            }
            Ev::Advance { ms } if *ms > 1000 => {
                for cand in [ms / 2 / 1000 * 1000, ms - 1000] {
                    if cand != *ms {
                        let mut ev = sc.events.clone();
                        ev[i] = Ev::Advance { ms: cand };
                        out.push(Scenario {
                            knobs: sc.knobs.clone(),
                            events: ev,
                        });
                    }
                }
            }
            Ev::Deliver { c, n: k } if *k != u32::MAX => {
                // merge with the following delivery on the same connection
                if i + 1 < n {
                    if let Ev::Deliver { c: c2, n: k2 } = &sc.events[i + 1] {
                        if c2 == c {
                            let mut ev = sc.events.clone();
                            let merged = if *k2 == u32::MAX { u32::MAX } else { k.saturating_add(*k2) };
                            ev[i] = Ev::Deliver { c: *c, n: merged };
                            ev.remove(i + 1);
                            out.push(Scenario {
                                knobs: sc.knobs.clone(),
                                events: ev,
                            });
                        }
                    }
                }
            }
            _ => {}
        }
    }
    out
}
