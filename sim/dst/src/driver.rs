//! The shared workload/oracle engine: runs a Scenario against an executor
//! (ring H or ring N), matches responses to requests, evaluates the framing
//! model and the reference model, and records the event log.
#![allow(dead_code)]
use crate::framing::{self, classify, FrameClass};
use crate::model::{LossMode, Model, Violation};
use crate::rng::Fp;
use crate::scenario::{Ev, Scenario};
use crate::wire::{self, op_info, parse_response, status, Kind, Request, Response};
use std::collections::BTreeMap;

#[derive(Clone, Debug, Default)]
pub struct ConnState {
    /// the server side of the connection is gone (dropped or shut down)
    pub server_closed: bool,
    /// the server is blocked writing (window exhausted)
    pub write_blocked: bool,
    /// the server has accepted the connection
    pub accepted: bool,
    pub unread_inbound: usize,
}

#[derive(Clone, Debug, Default)]
pub struct StoreProbe {
    /// Σ Record::len() over the inner store
    pub stored_bytes: u64,
    pub items: u64,
    /// RandomPolicy's accounted usage (hook H4), if the policy is Random
    pub accounted: Option<u64>,
}

pub trait Exec {
    fn connect(&mut self, c: usize) -> bool;
    fn deliver(&mut self, c: usize, bytes: &[u8]);
    fn fin(&mut self, c: usize);
    fn rst(&mut self, c: usize);
    fn advance_ms(&mut self, ms: u64);
    /// the server's clock (what `Timer::timestamp` returns)
    fn now(&self) -> u64;
    fn take_output(&mut self, c: usize) -> Vec<u8>;
    fn conn_state(&self, c: usize) -> ConnState;
    fn set_window(&mut self, _c: usize, _n: usize) {}
    fn add_window(&mut self, _c: usize, _n: usize) {}
    fn set_read_cap(&mut self, _c: usize, _n: usize) {}
    fn set_write_cap(&mut self, _c: usize, _n: usize) {}
    fn accept_error(&mut self, _errno: i32) {}
    fn probe(&self) -> Option<StoreProbe> {
        None
    }
    /// Record::len() of the stored record of `key` (without lazy expiry), if any
    fn record_len(&self, _key: &[u8]) -> Option<u64> {
        None
    }
    /// panics observed inside the code under test since the last call
    fn take_panics(&mut self) -> Vec<String>;
    /// ring name for logs
    fn ring(&self) -> &'static str;
}

#[derive(Clone, Debug, PartialEq, Eq)]
pub enum Resolution {
    Answered,
    Silent,
    /// not executed because the connection ended first
    Dropped,
    /// outcome unknown (connection reset before the answer could be seen)
    Unknown,
    Missing,
}

#[derive(Clone, Debug)]
pub struct Frame {
    pub start: usize,
    pub end: usize,
    pub req: Request,
    pub class: FrameClass,
    pub resolved: Option<Resolution>,
    pub response: Option<Response>,
    pub sym_index: usize,
}

#[derive(Clone, Debug, Default)]
pub struct Conn {
    pub opened: bool,
    pub script: Vec<u8>,
    pub delivered: usize,
    pub frames: Vec<Frame>,
    pub next_frame: usize,
    pub rx: Vec<u8>,
    pub raw_out: Vec<u8>,
    pub responses: Vec<Response>,
    pub consumed_responses: usize,
    pub client_fin: bool,
    pub client_rst: bool,
    pub server_closed_seen: bool,
    /// set when a frame obliges the server to close (quit, quitq)
    pub expect_close: Option<&'static str>,
    /// matching stopped: nothing further is checked on this connection
    pub desync: bool,
    /// the script contains raw (unframed) bytes from this offset on
    pub raw_from: Option<usize>,
    /// server time at which the server last finished reading a frame / accepted
    pub last_frame_ms: u64,
    pub close_checked: bool,
    /// script bytes delivered when the server-side close was first observed:
    /// nothing beyond this offset can have reached the server
    pub dead_from: Option<usize>,
}

#[derive(Clone, Debug, Default)]
pub struct Stats {
    pub events: u64,
    pub requests: u64,
    pub responses: u64,
    pub cuts_inside_frame: u64,
    pub deliveries: u64,
    pub fins: u64,
    pub rsts: u64,
    pub advances: u64,
    pub sim_ms: u64,
    pub idle_closes: u64,
    pub write_blocked_seen: u64,
    pub quiet_silent: u64,
    pub classes: BTreeMap<String, u64>,
    pub probes: BTreeMap<String, u64>,
}

impl Stats {
    pub fn probe(&mut self, name: &str) {
        *self.probes.entry(name.to_string()).or_insert(0) += 1;
    }
    pub fn merge(&mut self, o: &Stats) {
        self.events += o.events;
        self.requests += o.requests;
        self.responses += o.responses;
        self.cuts_inside_frame += o.cuts_inside_frame;
        self.deliveries += o.deliveries;
        self.fins += o.fins;
        self.rsts += o.rsts;
        self.advances += o.advances;
        // (advances of 5e9 s x hundreds of thousands of runs do not fit 64 bits of milliseconds)
        self.sim_ms = self.sim_ms.saturating_add(o.sim_ms);
        self.idle_closes += o.idle_closes;
        self.write_blocked_seen += o.write_blocked_seen;
        self.quiet_silent += o.quiet_silent;
        for (k, v) in &o.classes {
            *self.classes.entry(k.clone()).or_insert(0) += v;
        }
        for (k, v) in &o.probes {
            *self.probes.entry(k.clone()).or_insert(0) += v;
        }
    }
}

pub struct Driver<'a> {
    pub exec: &'a mut dyn Exec,
    pub model: Model,
    pub conns: Vec<Conn>,
    pub violations: Vec<Violation>,
    pub fp: Fp,
    pub stats: Stats,
    pub item_limit: u32,
    pub timeout_ms: u64,
    pub elapsed_ms: u64,
    /// expected server clock offset: server timestamp at elapsed 0
    pub clock_base: u64,
    pub check_clock: bool,
    pub sym_counter: usize,
    /// index of the scenario event at which the first violation appeared
    pub first_violation_event: Option<usize>,
    pub log: Vec<String>,
    pub keep_log: bool,
    /// a panic inside the server was already reported: connections that die
    /// because of it are not reported again
    pub panic_seen: bool,
}

impl<'a> Driver<'a> {
    pub fn with_slack(mut self, slack: u64) -> Self {
        self.model.expiry_slack = slack;
        self
    }

    pub fn new(exec: &'a mut dyn Exec, item_limit: u32, timeout_secs: u32, loss: LossMode) -> Driver<'a> {
        let base = exec.now();
        let mut model = Model::new(item_limit, loss);
        model.set_now(base);
        Driver {
            exec,
            model,
            conns: Vec::new(),
            violations: Vec::new(),
            fp: Fp::new(),
            stats: Stats::default(),
            item_limit,
            timeout_ms: timeout_secs as u64 * 1000,
            elapsed_ms: 0,
            clock_base: base,
            check_clock: true,
            sym_counter: 0,
            first_violation_event: None,
            log: Vec::new(),
            keep_log: false,
            panic_seen: false,
        }
    }

    fn conn(&mut self, c: usize) -> &mut Conn {
        while self.conns.len() <= c {
            self.conns.push(Conn::default());
        }
        &mut self.conns[c]
    }

    fn viol(&mut self, prop: &'static str, clause: &'static str, detail: String) {
        self.violations.push(Violation::new(prop, clause, detail));
    }

    fn note(&mut self, s: String) {
        if self.keep_log {
            self.log.push(s);
        }
    }

    pub fn run(&mut self, sc: &Scenario) {
        for (i, ev) in sc.events.iter().enumerate() {
            self.step(ev);
            if self.first_violation_event.is_none() && !self.violations.is_empty() {
                self.first_violation_event = Some(i);
            }
        }
        self.finish();
    }

    pub fn step(&mut self, ev: &Ev) {
        self.stats.events += 1;
        match ev {
            Ev::Connect { c } => {
                let ok = self.exec.connect(*c);
                let now = self.elapsed_ms;
                let cs = self.conn(*c);
                cs.opened = ok;
                cs.last_frame_ms = now;
                self.fp.u8(1);
                self.fp.u64(*c as u64);
                self.note(format!("connect c{} ok={}", c, ok));
            }
            Ev::Send { c, req } => {
                self.ensure_open(*c);
                let lit = req.materialise(&self.model);
                let class = classify(&lit, self.item_limit);
                let bytes = lit.encode();
                let idx = self.sym_counter;
                self.sym_counter += 1;
                *self.stats.classes.entry(format!("{:?}", class)).or_insert(0) += 1;
                self.stats.requests += 1;
                self.fp.u8(2);
                self.fp.bytes(&bytes);
                self.note(format!("send c{} #{} {:?} {} cas={} opaque={:#x} bytes={}", c, idx, class, req.short(), lit.cas, lit.opaque, bytes.len()));
                let cs = self.conn(*c);
                let start = cs.script.len();
                cs.script.extend_from_slice(&bytes);
                // the stream position of the next frame is what the header announces
                let end = start + framing::framed_len(&lit);
                if cs.raw_from.is_none() {
                    if end != cs.script.len() {
                        // announced length disagrees with the bytes present:
                        // following frames are not at known offsets
                        cs.raw_from = Some(cs.script.len().min(end));
                    }
                    cs.frames.push(Frame {
                        start,
                        end,
                        req: lit,
                        class,
                        resolved: None,
                        response: None,
                        sym_index: idx,
                    });
                }
            }
            Ev::Raw { c, bytes } => {
                self.ensure_open(*c);
                self.fp.u8(3);
                self.fp.bytes(bytes);
                let cs = self.conn(*c);
                if cs.raw_from.is_none() {
                    cs.raw_from = Some(cs.script.len());
                }
                cs.script.extend_from_slice(bytes);
            }
            Ev::Deliver { c, n } => {
                self.ensure_open(*c);
                let (chunk, cut_inside) = {
                    let cs = self.conn(*c);
                    let pending = cs.script.len() - cs.delivered;
                    let n = (*n as usize).min(pending);
                    let from = cs.delivered;
                    let to = from + n;
                    cs.delivered = to;
                    let inside = cs.frames.iter().any(|f| f.start < to && to < f.end);
                    (cs.script[from..to].to_vec(), inside && n > 0)
                };
                if cut_inside {
                    self.stats.cuts_inside_frame += 1;
                }
                self.stats.deliveries += 1;
                self.fp.u8(4);
                self.fp.u64(chunk.len() as u64);
                let closed = self.conns[*c].client_fin || self.conns[*c].client_rst;
                if !chunk.is_empty() && !closed {
                    self.exec.deliver(*c, &chunk);
                }
                self.note(format!("deliver c{} {}B (delivered {}/{})", c, chunk.len(), self.conns[*c].delivered, self.conns[*c].script.len()));
            }
            Ev::Advance { ms } => {
                self.exec.advance_ms(*ms);
                self.elapsed_ms += ms;
                self.stats.advances += 1;
                self.stats.sim_ms = self.stats.sim_ms.saturating_add(*ms as u64);
                self.fp.u8(5);
                self.fp.u64(*ms);
                let now = self.exec.now();
                self.model.set_now(now);
                if self.check_clock {
                    let want = self.clock_base.wrapping_add(self.elapsed_ms / 1000);
                    if now != want {
                        self.viol(
                            "C05",
                            "server-clock-drift",
                            format!("after {} ms of elapsed time the server clock reads {} (expected {})", self.elapsed_ms, now, want),
                        );
                        // resynchronise: report once
                        self.clock_base = now.wrapping_sub(self.elapsed_ms / 1000);
                    }
                }
                self.note(format!("advance {}ms -> server clock {}", ms, now));
            }
            Ev::Fin { c } => {
                self.ensure_open(*c);
                if !self.conns[*c].client_fin && !self.conns[*c].client_rst {
                    self.exec.fin(*c);
                    self.conns[*c].client_fin = true;
                    self.stats.fins += 1;
                }
                self.fp.u8(6);
                self.note(format!("fin c{}", c));
            }
            Ev::Rst { c } => {
                self.ensure_open(*c);
                if !self.conns[*c].client_rst {
                    self.exec.rst(*c);
                    self.conns[*c].client_rst = true;
                    self.stats.rsts += 1;
                }
                self.fp.u8(7);
                self.note(format!("rst c{}", c));
            }
            Ev::Window { c, n } => {
                self.ensure_open(*c);
                self.exec.set_window(*c, (*n).min(usize::MAX as u64) as usize);
                self.fp.u8(8);
                self.fp.u64(*n);
            }
            Ev::Drain { c, n } => {
                self.ensure_open(*c);
                self.exec.add_window(*c, *n as usize);
                self.fp.u8(9);
                self.fp.u64(*n);
            }
            Ev::ReadCap { c, n } => {
                self.ensure_open(*c);
                self.exec.set_read_cap(*c, *n as usize);
                self.fp.u8(10);
                self.fp.u64(*n as u64);
            }
            Ev::WriteCap { c, n } => {
                self.ensure_open(*c);
                self.exec.set_write_cap(*c, *n as usize);
                self.fp.u8(11);
                self.fp.u64(*n as u64);
            }
            Ev::AcceptErr { errno } => {
                self.exec.accept_error(*errno);
                self.fp.u8(12);
                self.fp.u64(*errno as u64);
            }
        }
        for p in self.exec.take_panics() {
            self.panic_seen = true;
            self.viol("C10", "panic", format!("panic inside the server: {}", p));
        }
        for c in 0..self.conns.len() {
            if self.conns[c].opened {
                self.pump(c, false);
            }
        }
    }

    fn ensure_open(&mut self, c: usize) {
        if !self.conn(c).opened {
            let ok = self.exec.connect(c);
            let now = self.elapsed_ms;
            let cs = self.conn(c);
            cs.opened = ok;
            cs.last_frame_ms = now;
        }
    }

    /// End of scenario: everything still pending is resolved.
    pub fn finish(&mut self) {
        for c in 0..self.conns.len() {
            if self.conns[c].opened {
                self.pump(c, true);
            }
        }
        let v = self.model.take_violations();
        self.violations.extend(v);
        self.fp.u64(self.violations.len() as u64);
    }

    /// Pull output of connection c, match it against the frames whose bytes
    /// have been delivered, apply the models.
    fn pump(&mut self, c: usize, _final: bool) {
        let out = self.exec.take_output(c);
        let st = self.exec.conn_state(c);
        if st.write_blocked {
            self.stats.write_blocked_seen += 1;
        }
        self.fp.bytes(&out);
        self.fp.u8(st.server_closed as u8);
        {
            let cs = &mut self.conns[c];
            cs.rx.extend_from_slice(&out);
            cs.raw_out.extend_from_slice(&out);
        }
        if self.conns[c].desync {
            return;
        }
        // parse complete response frames
        loop {
            let parsed = parse_response(&self.conns[c].rx);
            match parsed {
                Ok(Some((r, used))) => {
                    self.conns[c].rx.drain(..used);
                    if let Err(e) = wire::frame_wellformed(&r) {
                        self.viol("C11", "malformed-response", format!("c{}: {} in {}", c, e, r.short()));
                    }
                    self.stats.responses += 1;
                    self.note(format!("recv c{} {}", c, r.short()));
                    self.conns[c].responses.push(r);
                }
                Ok(None) => break,
                Err(e) => {
                    self.viol("C11", "not-a-response-frame", format!("c{}: {} (bytes {})", c, e, wire::hex_short(&self.conns[c].rx, 32)));
                    self.conns[c].desync = true;
                    return;
                }
            }
        }
        let newly_closed = st.server_closed && !self.conns[c].server_closed_seen;
        if st.server_closed {
            self.conns[c].server_closed_seen = true;
            if self.conns[c].dead_from.is_none() {
                self.conns[c].dead_from = Some(self.conns[c].delivered);
            }
        }

        // resolve frames in order
        loop {
            let cs = &self.conns[c];
            if cs.next_frame >= cs.frames.len() {
                break;
            }
            let f = cs.frames[cs.next_frame].clone();
            let header_in = cs.delivered >= f.start + 24;
            let complete = cs.delivered >= f.end;
            let next_resp: Option<Response> = cs.responses.get(cs.consumed_responses).cloned();
            let matches = next_resp
                .as_ref()
                .map(|r| r.opaque == f.req.opaque && r.opcode == f.req.opcode)
                .unwrap_or(false);
            let closed = cs.server_closed_seen;
            let after_close_order = cs.expect_close.is_some();
            let pending_ok = st.write_blocked; // an answer may still be stuck behind the window
            let client_gone = cs.client_rst;

            if let Some(dead) = cs.dead_from {
                if f.end > dead && !matches {
                    // its last byte never reached the server; if its header did and
                    // announces something unacceptable, that is what justified the close
                    if f.start + 24 <= dead && matches!(f.class, FrameClass::HeaderInvalid | FrameClass::UnknownOp | FrameClass::BodyInvalid | FrameClass::ShapeOdd) {
                        self.conns[c].close_checked = true;
                    }
                    self.drop_rest(c);
                    break;
                }
            }
            if after_close_order {
                // nothing after quit/quitq may be executed
                if matches {
                    self.viol("C12", "answered-after-quit", format!("c{}: request #{} after quit was answered: {}", c, f.sym_index, next_resp.as_ref().unwrap().short()));
                    self.conns[c].consumed_responses += 1;
                }
                self.resolve(c, Resolution::Dropped, None);
                continue;
            }
            if !header_in {
                break;
            }
            if client_gone && !matches {
                // after an abortive reset answers are lost; effects are a prefix
                self.mark_unknown_effects(&f);
                self.resolve(c, Resolution::Unknown, None);
                continue;
            }
            let info = op_info(f.req.opcode);
            match f.class {
                FrameClass::HeaderInvalid | FrameClass::UnknownOp | FrameClass::BodyInvalid => {
                    let needs_all = f.class != FrameClass::HeaderInvalid;
                    if matches {
                        let r = next_resp.unwrap();
                        self.conns[c].consumed_responses += 1;
                        if r.status == status::OK {
                            self.viol("C10", "invalid-frame-executed", format!("c{}: {:?} frame #{} ({}) was answered with success", c, f.class, f.sym_index, describe_req(&f.req)));
                        } else if let Err(e) = framing::validate_response(&f.req, &r) {
                            self.viol("C11", "malformed-response", format!("c{}: answer to invalid frame #{}: {}", c, f.sym_index, e));
                        }
                        if !complete {
                            // answered before the body arrived: the rest of this
                            // frame still has to be skipped; nothing more to check here
                        }
                        self.resolve(c, Resolution::Answered, Some(r));
                        continue;
                    }
                    if closed && next_resp.is_none() {
                        // refusing an invalid frame by closing is legitimate
                        self.conns[c].close_checked = true;
                        self.drop_rest(c);
                        break;
                    }
                    if needs_all && !complete {
                        break;
                    }
                    if pending_ok {
                        break;
                    }
                    // neither answered nor closed although nothing more can arrive for it
                    if next_resp.is_some() {
                        // a later frame was answered: this one was silently skipped or executed
                        self.viol("C10", "invalid-frame-ignored", format!("c{}: {:?} frame #{} ({}) was neither refused nor the connection closed", c, f.class, f.sym_index, describe_req(&f.req)));
                        self.resolve(c, Resolution::Missing, None);
                        continue;
                    }
                    self.viol("C10", "invalid-frame-ignored", format!("c{}: {:?} frame #{} ({}) was neither answered nor the connection closed", c, f.class, f.sym_index, describe_req(&f.req)));
                    self.resolve(c, Resolution::Missing, None);
                    continue;
                }
                FrameClass::TooLarge => {
                    if matches {
                        let r = next_resp.unwrap();
                        self.conns[c].consumed_responses += 1;
                        if r.status != status::TOO_LARGE {
                            self.viol("C13", "oversized-wrong-status", format!("c{}: request #{} with body {} > limit {} answered {:#06x}", c, f.sym_index, f.req.body_len(), self.item_limit, r.status));
                        }
                        if let Err(e) = framing::validate_response(&f.req, &r) {
                            self.viol("C11", "malformed-response", format!("c{}: answer to oversized #{}: {}", c, f.sym_index, e));
                        }
                        self.stats.probe("too_large_answered");
                        self.conns[c].last_frame_ms = self.elapsed_ms;
                        self.resolve(c, Resolution::Answered, Some(r));
                        continue;
                    }
                    if !complete {
                        break;
                    }
                    if pending_ok {
                        break;
                    }
                    if closed {
                        if self.close_is_legit(c) {
                            self.drop_rest(c);
                            break;
                        }
                        self.viol("C13", "oversized-closed", format!("c{}: connection closed instead of answering oversized request #{} (body {} > limit {})", c, f.sym_index, f.req.body_len(), self.item_limit));
                        self.conns[c].close_checked = true;
                        self.drop_rest(c);
                        break;
                    }
                    self.viol("C13", "oversized-unanswered", format!("c{}: oversized request #{} (body {} > limit {}) fully sent but not answered", c, f.sym_index, f.req.body_len(), self.item_limit));
                    self.resolve(c, Resolution::Missing, None);
                    continue;
                }
                FrameClass::Unimplemented | FrameClass::ShapeOdd => {
                    if !complete {
                        if closed {
                            self.drop_rest(c);
                        }
                        break;
                    }
                    if matches {
                        let r = next_resp.unwrap();
                        self.conns[c].consumed_responses += 1;
                        if let Err(e) = framing::validate_response(&f.req, &r) {
                            // a shape-odd frame executed by its header lengths may
                            // legitimately produce an unusual but well-formed frame
                            if f.class == FrameClass::Unimplemented || wire::frame_wellformed(&r).is_err() {
                                self.viol("C11", "malformed-response", format!("c{}: answer to #{}: {}", c, f.sym_index, e));
                            }
                        }
                        if r.status == status::OK && f.class == FrameClass::ShapeOdd {
                            self.mark_unknown_effects(&f);
                        }
                        self.conns[c].last_frame_ms = self.elapsed_ms;
                        self.resolve(c, Resolution::Answered, Some(r));
                        continue;
                    }
                    if closed && next_resp.is_none() {
                        // the connection was closed at this frame (or at a later
                        // one after this one had been passed silently)
                        if f.class == FrameClass::Unimplemented && !self.close_is_legit(c) && !info.quiet {
                            self.viol("C12", "known-opcode-unanswered", format!("c{}: request #{} of known opcode {:#04x} got no response (connection closed)", c, f.sym_index, f.req.opcode));
                            self.conns[c].close_checked = true;
                        }
                        if f.class == FrameClass::ShapeOdd {
                            self.conns[c].close_checked = true;
                            self.mark_unknown_effects(&f);
                            if info.quiet || matches!(f.req.opcode, 0x1e | 0x24) {
                                // a quiet frame may have been passed silently: the close can be
                                // this frame's or a later one's, after quiet successors were
                                // executed. Whatever the remaining frames address is uncertain.
                                let rest: Vec<Frame> = self.conns[c].frames[self.conns[c].next_frame..].to_vec();
                                for r in &rest {
                                    self.mark_unknown_effects(r);
                                }
                                let cs = &mut self.conns[c];
                                while cs.next_frame < cs.frames.len() {
                                    let i = cs.next_frame;
                                    cs.frames[i].resolved = Some(Resolution::Unknown);
                                    cs.next_frame += 1;
                                }
                                break;
                            }
                        }
                        self.drop_rest(c);
                        break;
                    }
                    if pending_ok && next_resp.is_none() {
                        break;
                    }
                    let quiet_like = info.quiet || matches!(f.req.opcode, 0x1e | 0x24);
                    if quiet_like {
                        if f.class == FrameClass::ShapeOdd {
                            self.mark_unknown_effects(&f);
                        }
                        self.resolve(c, Resolution::Silent, None);
                        continue;
                    }
                    self.viol("C12", "known-opcode-unanswered", format!("c{}: loud request #{} of known opcode {:#04x} ({:?}) got no response", c, f.sym_index, f.req.opcode, f.class));
                    if f.class == FrameClass::ShapeOdd {
                        self.mark_unknown_effects(&f);
                    }
                    self.resolve(c, Resolution::Missing, None);
                    continue;
                }
                FrameClass::Normal => {
                    if !complete {
                        if closed && !newly_closed_is_ok(&self.conns[c]) {
                            // handled by the close check below
                        }
                        if closed {
                            self.drop_rest(c);
                        }
                        break;
                    }
                    if info.kind == Kind::Quit {
                        if info.quiet {
                            if matches {
                                self.viol("C12", "quitq-answered", format!("c{}: quitq #{} was answered", c, f.sym_index));
                                self.conns[c].consumed_responses += 1;
                            }
                            self.conns[c].expect_close = Some("quitq");
                            self.resolve(c, Resolution::Silent, None);
                            continue;
                        }
                        if matches {
                            let r = next_resp.unwrap();
                            self.conns[c].consumed_responses += 1;
                            if let Err(e) = framing::validate_response(&f.req, &r) {
                                self.viol("C11", "malformed-response", format!("c{}: answer to quit #{}: {}", c, f.sym_index, e));
                            }
                            if r.status != status::OK {
                                self.viol("C12", "quit-failed", format!("c{}: quit answered {:#06x}", c, r.status));
                            }
                            self.conns[c].expect_close = Some("quit");
                            self.resolve(c, Resolution::Answered, Some(r));
                            continue;
                        }
                        if pending_ok && !closed {
                            break;
                        }
                        self.viol("C12", "quit-unanswered", format!("c{}: quit #{} got no response", c, f.sym_index));
                        self.conns[c].expect_close = Some("quit");
                        self.resolve(c, Resolution::Missing, None);
                        continue;
                    }
                    if matches {
                        let r = next_resp.unwrap();
                        self.conns[c].consumed_responses += 1;
                        if r.status == status::TOO_LARGE && f.req.body_len() <= self.item_limit {
                            // rejected for size although within the limit (append results excepted, the model decides)
                            if !matches!(info.kind, Kind::Append | Kind::Prepend) {
                                self.viol("C13", "rejected-within-limit", format!("c{}: request #{} with body {} <= limit {} answered 'too large'", c, f.sym_index, f.req.body_len(), self.item_limit));
                            }
                        }
                        if let Err(e) = framing::validate_response(&f.req, &r) {
                            self.viol("C11", "malformed-response", format!("c{}: answer to #{} ({}): {} in {}", c, f.sym_index, describe_req(&f.req), e, r.short()));
                        }
                        self.model.apply(&f.req, Some(&r));
                        self.conns[c].last_frame_ms = self.elapsed_ms;
                        self.resolve(c, Resolution::Answered, Some(r));
                        continue;
                    }
                    // no matching response at the head of the queue
                    if info.quiet {
                        if pending_ok && next_resp.is_none() {
                            break;
                        }
                        if closed && next_resp.is_none() {
                            // the connection died in the very step that completed this
                            // frame; whether it was executed first is open
                            self.mark_unknown_effects(&f);
                            self.resolve(c, Resolution::Unknown, None);
                            continue;
                        }
                        self.stats.quiet_silent += 1;
                        self.model.apply(&f.req, None);
                        self.conns[c].last_frame_ms = self.elapsed_ms;
                        self.resolve(c, Resolution::Silent, None);
                        continue;
                    }
                    if next_resp.is_some() {
                        let r = next_resp.unwrap();
                        if r.opaque == f.req.opaque && r.opcode != f.req.opcode && r.magic == 0x81 {
                            // the answer to this very request (its opaque), under another opcode
                            self.viol("C11", "opcode-not-echoed", format!("c{}: request #{} ({}) was answered with opcode {:#04x}: {}", c, f.sym_index, describe_req(&f.req), r.opcode, r.short()));
                        }
                        self.viol("C12", "response-out-of-order", format!("c{}: expected the answer to request #{} ({}), got {}", c, f.sym_index, describe_req(&f.req), r.short()));
                        self.conns[c].desync = true;
                        return;
                    }
                    if pending_ok && !closed {
                        break;
                    }
                    if closed {
                        if self.panic_seen || self.conns[c].client_rst {
                            self.mark_unknown_effects(&f);
                            self.resolve(c, Resolution::Unknown, None);
                            continue;
                        }
                        self.viol("C12", "loud-request-unanswered", format!("c{}: loud request #{} ({}) fully sent but the connection was closed without an answer", c, f.sym_index, describe_req(&f.req)));
                        self.conns[c].close_checked = true;
                        self.mark_unknown_effects(&f);
                        self.resolve(c, Resolution::Missing, None);
                        continue;
                    }
                    self.viol("C12", "loud-request-unanswered", format!("c{}: loud request #{} ({}) fully sent but not answered", c, f.sym_index, describe_req(&f.req)));
                    self.mark_unknown_effects(&f);
                    self.resolve(c, Resolution::Missing, None);
                    continue;
                }
            }
        }

        // unsolicited responses
        {
            let cs = &self.conns[c];
            if !cs.desync && cs.consumed_responses < cs.responses.len() && cs.raw_from.is_none() {
                let r = cs.responses[cs.consumed_responses].clone();
                self.viol("C12", "unsolicited-response", format!("c{}: response {} does not answer any fully sent request", c, r.short()));
                self.conns[c].desync = true;
                return;
            }
        }

        // the server closed: was it entitled to?
        if newly_closed && !self.conns[c].close_checked {
            self.conns[c].close_checked = true;
            if !self.close_is_legit(c) && self.conns[c].raw_from.is_none() {
                let cs = &self.conns[c];
                // a close is also legitimate when an invalid / shape-odd frame's header has been delivered
                let pending_invalid = cs.frames.iter().skip(cs.next_frame.saturating_sub(1)).any(|f| {
                    cs.delivered >= f.start + 24
                        && matches!(f.class, FrameClass::HeaderInvalid | FrameClass::UnknownOp | FrameClass::BodyInvalid | FrameClass::ShapeOdd)
                });
                if !pending_invalid {
                    self.viol("C12", "unexpected-close", format!("c{}: the server closed the connection without a reason (delivered {} of {} script bytes, {} ms since its last frame)", c, cs.delivered, cs.script.len(), self.elapsed_ms - cs.last_frame_ms));
                }
            }
        }
        // quit must be followed by a close
        if let Some(why) = self.conns[c].expect_close {
            if !st.server_closed && !st.write_blocked && !self.conns[c].close_checked {
                self.conns[c].close_checked = true;
                self.viol("C12", "no-close-after-quit", format!("c{}: connection still open after {}", c, why));
            }
        }
        let v = self.model.take_violations();
        self.violations.extend(v);
    }

    /// Is the server entitled to have closed connection c by now?
    fn close_is_legit(&mut self, c: usize) -> bool {
        let cs = &self.conns[c];
        if cs.expect_close.is_some() || cs.client_fin || cs.client_rst || self.panic_seen {
            return true;
        }
        if self.timeout_ms > 0 && self.elapsed_ms - cs.last_frame_ms >= self.timeout_ms {
            self.stats.idle_closes += 1;
            return true;
        }
        false
    }

    fn resolve(&mut self, c: usize, r: Resolution, resp: Option<Response>) {
        let cs = &mut self.conns[c];
        let i = cs.next_frame;
        cs.frames[i].resolved = Some(r);
        cs.frames[i].response = resp;
        cs.next_frame += 1;
    }

    fn drop_rest(&mut self, c: usize) {
        let frames: Vec<Frame> = self.conns[c].frames[self.conns[c].next_frame..].to_vec();
        for f in &frames {
            // a frame whose bytes were completely delivered before the close may
            // or may not have been executed when the close had another cause
            let _ = f;
        }
        let cs = &mut self.conns[c];
        while cs.next_frame < cs.frames.len() {
            let i = cs.next_frame;
            cs.frames[i].resolved = Some(Resolution::Dropped);
            cs.next_frame += 1;
        }
    }

    fn mark_unknown_effects(&mut self, f: &Frame) {
        let info = op_info(f.req.opcode);
        match info.kind {
            Kind::Flush => self.model.forget_everything(),
            Kind::Get | Kind::Noop | Kind::Version | Kind::Stat | Kind::Quit => {}
            _ => {
                if f.class == FrameClass::ShapeOdd {
                    // which key such a frame touches depends on how it is parsed
                    self.model.forget_everything();
                } else if !f.req.key.is_empty() {
                    self.model.mark_unknown(&f.req.key);
                }
            }
        }
    }

    pub fn fingerprint(&self) -> u64 {
        self.fp.0
    }
}

fn newly_closed_is_ok(_c: &Conn) -> bool {
    true
}

pub fn describe_req(r: &Request) -> String {
    let info = op_info(r.opcode);
    format!(
        "{:?}{} op={:#04x} key={} kl={} el={} bl={} cas={} opaque={:#x}",
        info.kind,
        if info.quiet { "Q" } else { "" },
        r.opcode,
        wire::hex_short(&r.key, 12),
        r.key_len(),
        r.extras_len(),
        r.body_len(),
        r.cas,
        r.opaque
    )
}
