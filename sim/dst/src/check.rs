//! Check framework: seeded parallel exploration, known-findings handling,
//! minimisation, replay files and evidence.
#![allow(dead_code)]
use crate::driver::Stats;
use crate::model::Violation;
use crate::rng::mix;
use serde_json::{json, Map, Value};
use std::collections::{BTreeMap, BTreeSet};
use std::sync::atomic::{AtomicBool, AtomicU64, Ordering};
use std::sync::Mutex;
use std::time::Instant;

pub const DEFAULT_SEED: u64 = 20261003;

#[derive(Clone, Copy, Debug, PartialEq, Eq)]
pub enum Tier {
    Quick,
    Thorough,
}

impl Tier {
    pub fn name(self) -> &'static str {
        match self {
            Tier::Quick => "quick",
            Tier::Thorough => "thorough",
        }
    }
}

/// A fully explicit case: replaying it never draws from a PRNG.
#[derive(Clone, Debug)]
pub struct Case {
    pub kind: String,
    pub data: Value,
}

impl Case {
    pub fn to_json(&self) -> Value {
        json!({"kind": self.kind, "data": self.data})
    }
    pub fn from_json(v: &Value) -> Option<Case> {
        Some(Case {
            kind: v.get("kind")?.as_str()?.to_string(),
            data: v.get("data")?.clone(),
        })
    }
}

#[derive(Clone, Debug, Default)]
pub struct Outcome {
    /// violations of the property under check
    pub violations: Vec<Violation>,
    /// violations seen that belong to other properties (count per signature)
    pub out_of_scope: BTreeMap<String, u64>,
    /// event-log fingerprint of the run (determinism witness, distinctness measure)
    pub fp: u64,
    pub nontrivial: bool,
    pub stats: Stats,
    /// free-form per-run counters merged into the evidence
    pub counters: BTreeMap<String, u64>,
    /// coverage cells hit
    pub cells: BTreeSet<String>,
    pub log: Vec<String>,
    /// every violation seen, claimed or not (scan / debugging)
    pub all: Vec<Violation>,
}

impl Outcome {
    pub fn count(&mut self, k: &str, n: u64) {
        *self.counters.entry(k.to_string()).or_insert(0) += n;
    }
    /// Split a list of violations into those the check claims and the rest.
    pub fn absorb(&mut self, vs: Vec<Violation>, claims: &dyn Fn(&Violation) -> bool) {
        for v in vs {
            self.all.push(v.clone());
            if claims(&v) {
                self.violations.push(v);
            } else {
                *self.out_of_scope.entry(v.signature()).or_insert(0) += 1;
            }
        }
    }
}

pub trait Check: Sync {
    fn id(&self) -> &'static str;
    fn level(&self) -> &'static str {
        "exploration"
    }
    fn runs(&self, tier: Tier) -> u64;
    fn generate(&self, run_seed: u64, index: u64, tier: Tier) -> Case;
    fn execute(&self, case: &Case) -> Outcome;
    /// Optional fast path: generate and execute run `index` without building the
    /// explicit (JSON) case; must be observationally identical to
    /// `execute(&generate(..))`. The explicit case is then only built for samples
    /// and failures.
    fn run_fast(&self, _run_seed: u64, _index: u64, _tier: Tier) -> Option<Outcome> {
        None
    }
    /// candidate simplifications of a failing case, most aggressive first
    fn shrink(&self, case: &Case) -> Vec<Case> {
        crate::minimise::shrink_scenario_case(case)
    }
    fn rule(&self) -> String;
    fn assumptions(&self) -> Vec<String>;
    fn components(&self) -> Value;
    /// compact rendering of a case for the evidence samples
    fn sample(&self, case: &Case) -> Value {
        case.to_json()
    }
    /// signature used to match a violation against the known-findings file
    fn signature(&self, v: &Violation) -> String {
        v.signature()
    }
}

#[derive(Clone, Debug)]
pub struct KnownFinding {
    pub property: String,
    pub status: String,
    pub signature: String,
    pub what: String,
    pub commit: Option<String>,
    pub case: Option<Case>,
}

pub fn load_known(path: &str, prop: &str) -> Vec<KnownFinding> {
    let text = match std::fs::read_to_string(path) {
        Ok(t) => t,
        Err(_) => return Vec::new(),
    };
    let v: Value = match serde_json::from_str(&text) {
        Ok(v) => v,
        Err(e) => {
            eprintln!("harness error: {} is not valid JSON: {}", path, e);
            std::process::exit(2);
        }
    };
    let mut out = Vec::new();
    if let Some(arr) = v.get("findings").and_then(|x| x.as_array()) {
        for f in arr {
            let p = f.get("property").and_then(|x| x.as_str()).unwrap_or("");
            if p != prop {
                continue;
            }
            out.push(KnownFinding {
                property: p.to_string(),
                status: f.get("status").and_then(|x| x.as_str()).unwrap_or("open").to_string(),
                signature: f.get("signature").and_then(|x| x.as_str()).unwrap_or("").to_string(),
                what: f.get("what").and_then(|x| x.as_str()).unwrap_or("").to_string(),
                commit: f.get("commit").and_then(|x| x.as_str()).map(|s| s.to_string()),
                case: f.get("case").and_then(Case::from_json),
            });
        }
    }
    out
}

pub struct RunConfig {
    pub tier: Tier,
    pub seed: u64,
    pub jobs: usize,
    pub verif_dir: String,
    pub runs_override: Option<u64>,
    pub write_evidence: bool,
    pub minimise_budget_s: f64,
}

/// A signature of the form `P:family:a+b+c` is known when every component
/// `P:family:a`, `P:family:b`, ... is an open known finding.
pub fn sig_known(sig: &str, open: &BTreeSet<String>) -> bool {
    if open.contains(sig) {
        return true;
    }
    if let Some(pos) = sig.rfind(':') {
        let (prefix, comps) = sig.split_at(pos);
        let comps = &comps[1..];
        if comps.contains('+') {
            return comps.split('+').all(|c| open.contains(&format!("{}:{}", prefix, c)));
        }
    }
    false
}

pub fn run_seed(seed: u64, prop: &str, index: u64) -> u64 {
    mix(&[seed, crate::rng::str_hash(prop), index])
}

struct Agg {
    evaluations: u64,
    fps_nontrivial: BTreeSet<u64>,
    fps_all: BTreeSet<u64>,
    stats: Stats,
    counters: BTreeMap<String, u64>,
    cells: BTreeSet<String>,
    out_of_scope: BTreeMap<String, u64>,
    known_hits: BTreeMap<String, u64>,
    samples: Vec<Value>,
    /// (index, case, violations) of runs with new violations
    failures: Vec<(u64, Case, Vec<Violation>)>,
    fp_chain: u64,
}

impl Agg {
    fn empty() -> Agg {
        Agg {
            evaluations: 0,
            fps_nontrivial: BTreeSet::new(),
            fps_all: BTreeSet::new(),
            stats: Stats::default(),
            counters: BTreeMap::new(),
            cells: BTreeSet::new(),
            out_of_scope: BTreeMap::new(),
            known_hits: BTreeMap::new(),
            samples: Vec::new(),
            failures: Vec::new(),
            fp_chain: 0,
        }
    }
}

// ---- a process abort inside the code under test (a panic where unwinding is not allowed, a
// panic while panicking) cannot be caught: a SIGABRT handler writes the indices of the runs
// that were executing to a file opened beforehand, and bin/check turns that into a report.
static CUR_RUN: [AtomicU64; 64] = [const { AtomicU64::new(0) }; 64];
static ABORT_FD: std::sync::atomic::AtomicI32 = std::sync::atomic::AtomicI32::new(-1);

extern "C" fn on_abort(_sig: libc::c_int) {
    let fd = ABORT_FD.load(Ordering::Relaxed);
    if fd >= 0 {
        for slot in CUR_RUN.iter() {
            let v = slot.load(Ordering::Relaxed);
            if v == 0 {
                continue;
            }
            // decimal digits of v - 1 and a newline, without allocating
            let mut n = v - 1;
            let mut buf = [0u8; 24];
            let mut i = buf.len();
            i -= 1;
            buf[i] = b'\n';
            loop {
                i -= 1;
                buf[i] = b'0' + (n % 10) as u8;
                n /= 10;
                if n == 0 {
                    break;
                }
            }
            unsafe {
                libc::write(fd, buf[i..].as_ptr() as *const libc::c_void, buf.len() - i);
            }
        }
    }
    unsafe { libc::_exit(134) }
}

/// Open `<verif_dir>/replays/.abort-<prop>` and install the SIGABRT handler.
pub fn install_abort_handler(verif_dir: &str, prop: &str) {
    let _ = std::fs::create_dir_all(format!("{}/replays", verif_dir));
    let path = format!("{}/replays/.abort-{}", verif_dir, prop);
    let _ = std::fs::remove_file(&path);
    if let Ok(c) = std::ffi::CString::new(path) {
        let fd = unsafe { libc::open(c.as_ptr(), libc::O_WRONLY | libc::O_CREAT | libc::O_TRUNC, 0o644) };
        ABORT_FD.store(fd, Ordering::Relaxed);
        unsafe {
            libc::signal(libc::SIGABRT, on_abort as extern "C" fn(libc::c_int) as libc::sighandler_t);
        }
    }
}

/// Wall-clock budget of one run before the watchdog calls it a hang (ring T has
/// its own 30 s step watchdog; the longest legitimate runs are the start-up
/// probes of C20 with their 30 s answer deadlines).
pub fn hang_secs() -> u64 {
    std::env::var("VERIF_HANG_SECS").ok().and_then(|s| s.parse().ok()).unwrap_or(300)
}

/// `generate` may itself execute the code under test (dry runs): bounded.
fn generate_with_timeout(chk: &dyn Check, rs: u64, i: u64, tier: Tier) -> Case {
    let (tx, rx) = std::sync::mpsc::channel();
    std::thread::scope(|s| {
        let h = s.spawn(move || {
            crate::stack::install_thread();
            let _ = tx.send(chk.generate(rs, i, tier));
        });
        match rx.recv_timeout(std::time::Duration::from_secs(30)) {
            Ok(c) => {
                let _ = h.join();
                c
            }
            Err(_) => {
                // cannot be joined: report without the case and leave at once
                println!("violation detail: [hang] run {} (seed {}) did not return and its case cannot be regenerated without hanging again", i, rs);
                Case { kind: "unavailable".into(), data: json!({"run_index": i, "run_seed": rs}) }
            }
        }
    })
}

pub fn run_check(chk: &dyn Check, cfg: &RunConfig) -> i32 {
    let t0 = Instant::now();
    let prop = chk.id();
    let known = load_known(&format!("{}/known_findings.json", cfg.verif_dir), prop);
    let open: Vec<&KnownFinding> = known.iter().filter(|k| k.status == "open").collect();
    let open_sigs: BTreeSet<String> = open.iter().map(|k| k.signature.clone()).collect();

    println!("check {} tier={} seed={} jobs={}", prop, cfg.tier.name(), cfg.seed, cfg.jobs);
    install_abort_handler(&cfg.verif_dir, prop);

    // phase 0: embedded histories of the open known findings
    let mut known_reproduced: Vec<String> = Vec::new();
    let mut known_gone: Vec<String> = Vec::new();
    for k in &open {
        if let Some(case) = &k.case {
            let out = chk.execute(case);
            let hit = out.violations.iter().any(|v| chk.signature(v) == k.signature);
            if hit {
                println!("KNOWN-FINDING: property={} {} {}", prop, k.signature, k.what);
                known_reproduced.push(k.signature.clone());
            } else {
                println!("note: known finding {} no longer reproduces from its embedded history", k.signature);
                known_gone.push(k.signature.clone());
            }
            // anything else the embedded history shows is reported normally below
        }
    }

    let ctx = TailCtx {
        chk,
        cfg,
        open: open.clone(),
        known_reproduced: known_reproduced.clone(),
        known_gone: known_gone.clone(),
        t0,
    };
    let total = cfg.runs_override.unwrap_or_else(|| chk.runs(cfg.tier));
    let jobs = cfg.jobs.max(1);
    // watchdog: (run index + 1, start in ms since t0) per worker
    let slots: Vec<(AtomicU64, AtomicU64)> = (0..jobs).map(|_| (AtomicU64::new(0), AtomicU64::new(0))).collect();
    let workers_done = AtomicU64::new(0);
    let hang_ms = hang_secs() * 1000;
    let next = AtomicU64::new(0);
    let stop = AtomicBool::new(false);
    let first_fail = AtomicU64::new(u64::MAX);
    let agg = Mutex::new(Agg {
        evaluations: 0,
        fps_nontrivial: BTreeSet::new(),
        fps_all: BTreeSet::new(),
        stats: Stats::default(),
        counters: BTreeMap::new(),
        cells: BTreeSet::new(),
        out_of_scope: BTreeMap::new(),
        known_hits: BTreeMap::new(),
        samples: Vec::new(),
        failures: Vec::new(),
        fp_chain: 0,
    });

    let (agg_r, stop_r, next_r, first_fail_r, open_sigs_r, slots_r, workers_done_r, ctx_r) = (&agg, &stop, &next, &first_fail, &open_sigs, &slots, &workers_done, &ctx);
    std::thread::scope(|s| {
        let (agg, stop, next, first_fail, open_sigs, slots, workers_done, ctx) = (agg_r, stop_r, next_r, first_fail_r, open_sigs_r, slots_r, workers_done_r, ctx_r);
        // a run that never returns (the code under test blocks or spins forever) must not
        // hang the check: the watchdog reports it and ends the process
        s.spawn(move || loop {
            crate::stack::install_thread();
            if workers_done.load(Ordering::SeqCst) >= jobs as u64 {
                break;
            }
            std::thread::sleep(std::time::Duration::from_millis(200));
            let now_ms = t0.elapsed().as_millis() as u64;
            for slot in slots.iter() {
                let i1 = slot.0.load(Ordering::SeqCst);
                if i1 == 0 || now_ms.saturating_sub(slot.1.load(Ordering::SeqCst)) <= hang_ms || slot.0.load(Ordering::SeqCst) != i1 {
                    continue;
                }
                let i = i1 - 1;
                                let owner = hang_owner(prop);
                let v = Violation::new(owner, "hang", format!("run {} did not return within {} s of wall-clock time: a command inside the code under test blocks or spins forever", i, hang_ms / 1000));
                let case = generate_with_timeout(chk, run_seed(cfg.seed, prop, i), i, cfg.tier);
                let a = std::mem::replace(&mut *agg.lock().unwrap(), Agg::empty());
                let code = finish(ctx, a, Some((i, case, v)));
                std::process::exit(code);
            }
        });
        for w in 0..jobs {
            let slot = &slots[w];
            s.spawn(move || {
                crate::stack::install_thread();
                struct Done<'a>(&'a AtomicU64);
                impl Drop for Done<'_> {
                    fn drop(&mut self) {
                        self.0.fetch_add(1, Ordering::SeqCst);
                    }
                }
                let _done = Done(workers_done);
                loop {
                    slot.0.store(0, Ordering::SeqCst);
                    if stop.load(Ordering::SeqCst) {
                        // finish only indices below the first failure
                    }
                    let i = next.fetch_add(1, Ordering::SeqCst);
                    if i >= total || i > first_fail.load(Ordering::SeqCst) {
                        break;
                    }
                    let rs = run_seed(cfg.seed, prop, i);
                    slot.1.store(t0.elapsed().as_millis() as u64, Ordering::SeqCst);
                    slot.0.store(i + 1, Ordering::SeqCst);
                    CUR_RUN[w % 64].store(i + 1, Ordering::Relaxed);
                    let (out, case) = match chk.run_fast(rs, i, cfg.tier) {
                        Some(o) => (o, None),
                        None => {
                            let case = chk.generate(rs, i, cfg.tier);
                            (chk.execute(&case), Some(case))
                        }
                    };
                    slot.0.store(0, Ordering::SeqCst);
                    CUR_RUN[w % 64].store(0, Ordering::Relaxed);
                    let mut new_viol = Vec::new();
                    let mut known_here = Vec::new();
                    for v in &out.violations {
                        let sig = chk.signature(v);
                        if sig_known(&sig, &open_sigs) {
                            known_here.push(sig);
                        } else {
                            new_viol.push(v.clone());
                        }
                    }
                    let mut a = agg.lock().unwrap();
                    a.evaluations += 1;
                    a.fps_all.insert(out.fp);
                    if out.nontrivial {
                        a.fps_nontrivial.insert(out.fp);
                    }
                    a.fp_chain ^= mix(&[i, out.fp]);
                    a.stats.merge(&out.stats);
                    for (k, v) in &out.counters {
                        *a.counters.entry(k.clone()).or_insert(0) += v;
                    }
                    for c in &out.cells {
                        a.cells.insert(c.clone());
                    }
                    for (k, v) in &out.out_of_scope {
                        *a.out_of_scope.entry(k.clone()).or_insert(0) += v;
                    }
                    for k in known_here {
                        *a.known_hits.entry(k).or_insert(0) += 1;
                    }
                    if a.samples.len() < 3 && (i < 2 || (out.nontrivial && a.samples.len() < 3)) {
                        let case = case.clone().unwrap_or_else(|| chk.generate(rs, i, cfg.tier));
                        a.samples.push(json!({"run_index": i, "run_seed": rs, "case": chk.sample(&case)}));
                    }
                    if !new_viol.is_empty() {
                        let case = case.unwrap_or_else(|| chk.generate(rs, i, cfg.tier));
                        a.failures.push((i, case, new_viol));
                        first_fail.fetch_min(i, Ordering::SeqCst);
                        stop.store(true, Ordering::SeqCst);
                    }
                }
            });
        }
    });

    let a = agg.into_inner().unwrap();
    finish(&ctx, a, None)
}

struct TailCtx<'a> {
    chk: &'a dyn Check,
    cfg: &'a RunConfig,
    open: Vec<&'a KnownFinding>,
    known_reproduced: Vec<String>,
    known_gone: Vec<String>,
    t0: Instant,
}

/// Everything after the exploration: known findings seen on the way, the first
/// failure (minimised, written as a replay file), the evidence file, the exit
/// code. `hang`: a run that did not return (reported by the watchdog, which then
/// ends the process with the code returned here).
/// Whose violation a run that never returns is. C10: no input hangs the server; C14: eviction
/// always terminates (every C14 run stores under random eviction); C18: after a fault on one
/// connection the server keeps serving (a connection task that spins stops it); everywhere
/// else it is reported as C16's (no command blocks forever) and noted as out of scope.
pub fn hang_owner(prop: &str) -> &'static str {
    match prop {
        "C10" => "C10",
        "C14" => "C14",
        "C18" => "C18",
        _ => "C16",
    }
}

fn finish(ctx: &TailCtx, mut a: Agg, hang: Option<(u64, Case, Violation)>) -> i32 {
    let chk = ctx.chk;
    let cfg = ctx.cfg;
    let prop = chk.id();
    let t0 = ctx.t0;
    let open = &ctx.open;
    let mut known_reproduced = ctx.known_reproduced.clone();
    let known_gone = ctx.known_gone.clone();
    a.failures.sort_by_key(|f| f.0);
    let wall_explore = t0.elapsed().as_secs_f64();
    let mut skip_minimise = false;
    if let Some((idx, case, v)) = hang {
        if v.prop == prop {
            // nothing below that index failed in a way that returned: the hang is the report
            if a.failures.first().map(|f| f.0 > idx).unwrap_or(true) {
                a.failures.insert(0, (idx, case, vec![v]));
                skip_minimise = true;
            }
        } else {
            let _ = std::fs::create_dir_all(format!("{}/replays", cfg.verif_dir));
            let path = format!("{}/replays/{}-{}-seed{}-run{}-hang.json", cfg.verif_dir, prop, cfg.tier.name(), cfg.seed, idx);
            let doc = json!({
                "property": prop,
                "tier": cfg.tier.name(),
                "seed": cfg.seed,
                "run_index": idx,
                "run_seed": run_seed(cfg.seed, prop, idx),
                "signature": v.signature(),
                "violation": {"prop": v.prop, "clause": v.clause, "detail": v.detail},
                "case": case.to_json(),
            });
            let _ = std::fs::write(&path, serde_json::to_string_pretty(&doc).unwrap());
            println!("note: run {} did not return ({}); that is {}'s business, not {}'s - counted as an out-of-scope observation, exploration stops here (case: {})", idx, v.detail, v.prop, prop, path);
            *a.out_of_scope.entry(v.signature()).or_insert(0) += 1;
        }
    }

    // known findings that showed up during exploration but had no embedded case
    for k in open.iter() {
        if k.case.is_none() && a.known_hits.contains_key(&k.signature) {
            println!("KNOWN-FINDING: property={} {} {}", prop, k.signature, k.what);
            known_reproduced.push(k.signature.clone());
        }
    }

    let mut exit = 0;
    let mut violation_reports = Vec::new();
    if let Some((idx, case, viols)) = a.failures.first().cloned() {
        exit = 1;
        let v0 = viols[0].clone();
        let sig = chk.signature(&v0);
        let tmin = Instant::now();
        let (min_case, min_viol, tried) = if skip_minimise { (case.clone(), v0.clone(), 0) } else { crate::minimise::minimise(chk, &case, &sig, cfg.minimise_budget_s) };
        let _ = std::fs::create_dir_all(format!("{}/replays", cfg.verif_dir));
        let path = format!("{}/replays/{}-{}-seed{}-run{}.json", cfg.verif_dir, prop, cfg.tier.name(), cfg.seed, idx);
        let rs = run_seed(cfg.seed, prop, idx);
        let doc = json!({
            "property": prop,
            "tier": cfg.tier.name(),
            "seed": cfg.seed,
            "run_index": idx,
            "run_seed": rs,
            "signature": sig,
            "violation": {"prop": min_viol.prop, "clause": min_viol.clause, "detail": min_viol.detail},
            "minimised": {"candidates_tried": tried, "seconds": tmin.elapsed().as_secs_f64()},
            "case": min_case.to_json(),
            "original_case": case.to_json(),
        });
        if let Err(e) = std::fs::write(&path, serde_json::to_string_pretty(&doc).unwrap()) {
            eprintln!("harness error: cannot write {}: {}", path, e);
            return 2;
        }
        println!("violation detail: [{}] {}", sig, min_viol.detail);
        println!("VIOLATION property={} replay={}", prop, path);
        violation_reports.push(json!({"signature": sig, "replay": path, "detail": min_viol.detail}));
    }

    if cfg.write_evidence {
        let wall = t0.elapsed().as_secs_f64();
        let per_hour = if wall_explore > 0.0 {
            (a.evaluations as f64 / wall_explore * 3600.0) as u64
        } else {
            0
        };
        let mut cov = Map::new();
        cov.insert("evaluations".into(), json!(a.evaluations));
        cov.insert("distinct_nontrivial".into(), json!(a.fps_nontrivial.len()));
        cov.insert("distinct_event_logs".into(), json!(a.fps_all.len()));
        cov.insert("rule".into(), json!(chk.rule()));
        cov.insert("samples".into(), Value::Array(a.samples.clone()));
        cov.insert("exhaustive".into(), json!(false));
        cov.insert("runs_per_hour".into(), json!(per_hour));
        cov.insert("seeds_per_hour".into(), json!(per_hour));
        cov.insert("simulated_time_s".into(), json!(a.stats.sim_ms / 1000));
        cov.insert("requests_executed".into(), json!(a.stats.requests));
        cov.insert("responses_checked".into(), json!(a.stats.responses));
        cov.insert(
            "faults_fired".into(),
            json!({
                "cut_inside_frame": a.stats.cuts_inside_frame,
                "deliveries": a.stats.deliveries,
                "orderly_close_fin": a.stats.fins,
                "abortive_reset": a.stats.rsts,
                "clock_advances": a.stats.advances,
                "idle_timeout_closes": a.stats.idle_closes,
                "write_blocked_observed": a.stats.write_blocked_seen,
                "thread_preemptions": a.counters.get("preemptions").copied().unwrap_or(0),
                "thread_context_switches": a.counters.get("context_switches").copied().unwrap_or(0),
                "accept_errors": a.counters.get("accept_errors_injected").copied().unwrap_or(0),
            }),
        );
        cov.insert("frame_classes".into(), json!(a.stats.classes));
        cov.insert("probes".into(), json!(a.stats.probes));
        cov.insert("counters".into(), json!(a.counters));
        cov.insert("coverage_cells".into(), json!(a.cells.len()));
        cov.insert("coverage_cells_sample".into(), json!(a.cells.iter().take(40).collect::<Vec<_>>()));
        cov.insert("out_of_scope_observations".into(), json!(a.out_of_scope));
        cov.insert("known_findings_reproduced".into(), json!(known_reproduced));
        cov.insert("known_findings_not_reproduced".into(), json!(known_gone));
        cov.insert("known_finding_hits_during_exploration".into(), json!(a.known_hits));
        cov.insert("components".into(), chk.components());
        cov.insert("event_log_digest".into(), json!(format!("{:016x}", a.fp_chain)));
        cov.insert("violation_reports".into(), Value::Array(violation_reports));
        let ev = json!({
            "property_id": prop,
            "tier": cfg.tier.name(),
            "seed": cfg.seed,
            "level": chk.level(),
            "coverage": Value::Object(cov),
            "assumptions": chk.assumptions(),
            "wall_s": wall,
            "violations": if exit == 1 { 1 } else { 0 },
        });
        let _ = std::fs::create_dir_all(format!("{}/evidence", cfg.verif_dir));
        let path = format!("{}/evidence/{}.json", cfg.verif_dir, prop);
        if let Err(e) = std::fs::write(&path, serde_json::to_string_pretty(&ev).unwrap()) {
            eprintln!("harness error: cannot write {}: {}", path, e);
            return 2;
        }
    }
    println!(
        "check {} done: {} runs, {} distinct non-trivial, {} out-of-scope observations, {:.1}s, exit {}",
        prop,
        a.evaluations,
        a.fps_nontrivial.len(),
        a.out_of_scope.values().sum::<u64>(),
        t0.elapsed().as_secs_f64(),
        exit
    );
    exit
}

/// Replay a replay file in this (fresh) process.
pub fn replay(chk: &dyn Check, doc: &Value) -> i32 {
    let case = match doc.get("case").and_then(Case::from_json) {
        Some(c) => c,
        None => {
            eprintln!("harness error: replay file has no case");
            return 2;
        }
    };
    let want = doc.get("signature").and_then(|x| x.as_str()).unwrap_or("");
    if case.kind == "unavailable" {
        eprintln!("harness error: the replay file records a run whose case could not be regenerated");
        return 2;
    }
    // a recorded hang replays as a hang: bounded by the same watchdog
    let (tx, rx) = std::sync::mpsc::channel();
    let out = std::thread::scope(|s| {
        let case_r = &case;
        s.spawn(move || {
            crate::stack::install_thread();
            let _ = tx.send(chk.execute(case_r));
        });
        match rx.recv_timeout(std::time::Duration::from_secs(hang_secs())) {
            Ok(o) => o,
            Err(_) => {
                let owner = hang_owner(chk.id());
                println!("replayed violation [{}:hang] the case did not return within {} s of wall-clock time", owner, hang_secs());
                if want.ends_with(":hang") {
                    println!("VIOLATION property={} replay=(replayed)", chk.id());
                }
                std::process::exit(1);
            }
        }
    });
    for l in &out.log {
        println!("  {}", l);
    }
    let mut hit = false;
    for v in &out.violations {
        let sig = chk.signature(v);
        println!("replayed violation [{}] {}", sig, v.detail);
        if sig == want {
            hit = true;
        }
    }
    println!("event log fingerprint {:016x}", out.fp);
    if hit {
        println!("VIOLATION property={} replay=(replayed)", chk.id());
        1
    } else if !out.violations.is_empty() {
        println!("replay produced violations but not the recorded signature {}", want);
        1
    } else {
        println!("replay: no violation");
        0
    }
}


/// Debug aid: run n cases and print one example per violation signature,
/// whichever property it belongs to.
pub fn scan(chk: &dyn Check, seed: u64, n: u64, tier: Tier) {
    let mut seen: BTreeMap<String, (u64, String, u64)> = BTreeMap::new();
    for i in 0..n {
        let rs = run_seed(seed, chk.id(), i);
        let case = chk.generate(rs, i, tier);
        let out = chk.execute(&case);
        for v in &out.all {
            // ring-T histories: tell classes apart by the clause the closest attempt failed with
            let mut sig = v.signature();
            if let Some(p) = v.detail.find("closest attempt fails with [") {
                let rest = &v.detail[p + 28..];
                if let Some(q) = rest.find(']') {
                    sig = format!("{} / {}", sig, &rest[..q]);
                }
            }
            let e = seen.entry(sig).or_insert((i, v.detail.clone(), 0));
            e.2 += 1;
        }
    }
    for (sig, (i, d, cnt)) in seen {
        println!("{:45} x{:<6} first run {:<5} {}", sig, cnt, i, d);
    }
}


/// Determinism witness: per-run event-log fingerprints and violation signatures
/// for run indices 0..n, printed in index order (the runs themselves execute on
/// `jobs` worker threads).
pub fn digest(chk: &dyn Check, seed: u64, n: u64, jobs: usize, tier: Tier) {
    let next = AtomicU64::new(0);
    let res: Mutex<BTreeMap<u64, String>> = Mutex::new(BTreeMap::new());
    std::thread::scope(|s| {
        for _ in 0..jobs.max(1) {
            s.spawn(|| loop {
                let i = next.fetch_add(1, Ordering::SeqCst);
                if i >= n {
                    break;
                }
                let rs = run_seed(seed, chk.id(), i);
                let case = chk.generate(rs, i, tier);
                let out = chk.execute(&case);
                // the fast path (no explicit case) must be observationally identical
                if let Some(f) = chk.run_fast(rs, i, tier) {
                    let a: Vec<String> = f.all.iter().map(|v| v.signature()).collect();
                    let b: Vec<String> = out.all.iter().map(|v| v.signature()).collect();
                    if f.fp != out.fp || a != b {
                        eprintln!("harness error: fast path differs from the explicit case for {} run {}", chk.id(), i);
                        std::process::exit(2);
                    }
                }
                let sigs: Vec<String> = out.all.iter().map(|v| v.signature()).collect();
                let case_fp = mix(&[crate::rng::str_hash(&case.to_json().to_string())]);
                res.lock().unwrap().insert(i, format!("{:016x} {:016x} {}", case_fp, out.fp, sigs.join(",")));
            });
        }
    });
    for (i, l) in res.into_inner().unwrap() {
        println!("{} {} {}", chk.id(), i, l);
    }
}
