//! Ring N: the whole server (real MemcacheTcpServer::run accept loop and
//! semaphore, real Client::handle tasks, real MemcacheBinaryConnection, codec,
//! handler, store and the real SystemTimer) inside a paused current_thread
//! tokio runtime, over the simulated transport. Every event is followed by a
//! run to quiescence, so "no response will come" is decidable.
#![allow(dead_code)]
use crate::driver::{ConnState, Exec, StoreProbe};
use crate::scenario::Knobs;
use crate::stack::{self, build_store, StoreStack};
use memcrs::memcache_server::memc_tcp::{MemcacheServerConfig, MemcacheTcpServer};
use memcrs::server::timer::{SystemTimer, Timer};
use simseam::net::{ConnView, SimNet};
use std::sync::Arc;
use std::time::Duration;

pub struct RingN {
    rt: Option<tokio::runtime::Runtime>,
    pub net: Arc<SimNet>,
    pub timer: Arc<SystemTimer>,
    pub stack: StoreStack,
    /// scenario connection index -> simulated connection id
    pub ids: Vec<Option<usize>>,
    panics: Vec<String>,
    pub quiesce_spins: u64,
    pub max_spins: u64,
    pub livelock: bool,
    pub listener: usize,
    stall: bool,
}

const SPIN_LIMIT: u64 = 200_000;

async fn quiesce(net: &SimNet) -> (u64, bool) {
    let mut last = net.activity();
    let mut stable = 0;
    let mut spins = 0u64;
    loop {
        tokio::task::yield_now().await;
        spins += 1;
        let a = net.activity();
        if a == last {
            stable += 1;
            if stable >= 3 {
                return (spins, false);
            }
        } else {
            stable = 0;
            last = a;
        }
        if spins > SPIN_LIMIT {
            return (spins, true);
        }
    }
}

impl RingN {
    pub fn new(knobs: &Knobs) -> RingN {
        RingN::with_listeners(knobs, 1)
    }

    /// `listeners` accept loops, all clones of one MemcacheTcpServer (one shared
    /// store and one shared connection-limit semaphore), each with its own
    /// listener on the same port - what current-thread mode sets up with
    /// SO_REUSEPORT. The simulator picks the listener for every connection.
    pub fn with_listeners(knobs: &Knobs, listeners: usize) -> RingN {
        let rt = tokio::runtime::Builder::new_current_thread()
            .enable_time()
            .start_paused(true)
            .build()
            .expect("runtime");
        let net = SimNet::new();
        SimNet::install(&net);
        let timer = Arc::new(SystemTimer::new());
        let stack = build_store(knobs, timer.clone());
        let cfg = MemcacheServerConfig::new(knobs.timeout_secs, knobs.conn_limit, knobs.item_limit, knobs.backlog);
        let server = MemcacheTcpServer::new(cfg, stack.cache.clone());
        let t2 = timer.clone();
        {
            let _g = rt.enter();
            for _ in 0..listeners.max(1) {
                let mut s = server.clone();
                rt.spawn(async move {
                    let _ = s.run("127.0.0.1:11211").await;
                });
            }
            rt.spawn(async move { t2.run().await });
        }
        let mut r = RingN {
            rt: Some(rt),
            net,
            timer,
            stack,
            ids: Vec::new(),
            panics: Vec::new(),
            quiesce_spins: 0,
            max_spins: 0,
            livelock: false,
            listener: 0,
            stall: knobs.stall,
        };
        r.settle();
        r
    }

    /// Run the server until no task can make progress.
    pub fn settle(&mut self) {
        let net = self.net.clone();
        stack::capture_panics(true);
        let (spins, live) = self.rt.as_ref().unwrap().block_on(async { quiesce(&net).await });
        stack::capture_panics(false);
        self.quiesce_spins += spins;
        self.max_spins = self.max_spins.max(spins);
        if spins > 1000 && std::env::var("VERIF_DEBUG_SPINS").is_ok() {
            eprintln!("settle took {} spins; conns={} activity={}", spins, self.net.conns(), self.net.activity());
        }
        if live {
            self.livelock = true;
        }
        self.panics.extend(stack::take_panics());
    }

    pub fn view(&self, c: usize) -> Option<ConnView> {
        self.ids.get(c).copied().flatten().map(|id| self.net.view(id))
    }

    /// Connect scenario connection `c` to listener `l`.
    pub fn connect_to(&mut self, c: usize, l: usize) -> bool {
        while self.ids.len() <= c {
            self.ids.push(None);
        }
        let id = self.net.connect(l);
        self.ids[c] = id;
        self.settle();
        id.is_some()
    }

    pub fn sim_id(&self, c: usize) -> Option<usize> {
        self.ids.get(c).copied().flatten()
    }
}

impl Drop for RingN {
    fn drop(&mut self) {
        stack::capture_panics(true);
        if let Some(rt) = self.rt.take() {
            drop(rt);
        }
        stack::capture_panics(false);
        let _ = stack::take_panics();
        SimNet::uninstall();
    }
}

impl Exec for RingN {
    fn connect(&mut self, c: usize) -> bool {
        while self.ids.len() <= c {
            self.ids.push(None);
        }
        let id = self.net.connect(self.listener);
        self.ids[c] = id;
        self.settle();
        id.is_some()
    }
    fn deliver(&mut self, c: usize, bytes: &[u8]) {
        if let Some(id) = self.sim_id(c) {
            self.net.deliver(id, bytes);
            self.settle();
        }
    }
    fn fin(&mut self, c: usize) {
        if let Some(id) = self.sim_id(c) {
            self.net.fin(id);
            self.settle();
        }
    }
    fn rst(&mut self, c: usize) {
        if let Some(id) = self.sim_id(c) {
            self.net.rst(id);
            self.settle();
        }
    }
    fn advance_ms(&mut self, ms: u64) {
        let net = self.net.clone();
        stack::capture_panics(true);
        let jump = self.stall && ms >= 2000;
        let timer = self.timer.clone();
        let (spins, live) = self.rt.as_ref().unwrap().block_on(async {
            if jump {
                // the thread that drives the timer was stalled: the clock is moved in one go and
                // every timer that fell due meanwhile (the 1 Hz tick among them) is late
                tokio::time::advance(Duration::from_millis(ms)).await;
                // let the timer task catch up: until the server clock stops moving
                for _ in 0..4096 {
                    let before = timer.timestamp();
                    for _ in 0..8 {
                        tokio::task::yield_now().await;
                    }
                    if timer.timestamp() == before {
                        break;
                    }
                }
            } else if ms > 0 {
                tokio::time::sleep(Duration::from_millis(ms)).await;
            }
            quiesce(&net).await
        });
        stack::capture_panics(false);
        self.quiesce_spins += spins;
        self.max_spins = self.max_spins.max(spins);
        if live {
            self.livelock = true;
        }
        self.panics.extend(stack::take_panics());
    }
    fn now(&self) -> u64 {
        self.timer.timestamp()
    }
    fn take_output(&mut self, c: usize) -> Vec<u8> {
        match self.sim_id(c) {
            Some(id) => self.net.take_output(id),
            None => Vec::new(),
        }
    }
    fn conn_state(&self, c: usize) -> ConnState {
        match self.view(c) {
            Some(v) => ConnState {
                server_closed: v.srv_dropped || v.srv_shutdown,
                write_blocked: v.write_blocked && !v.srv_dropped,
                accepted: v.accepted,
                unread_inbound: v.inbound_unread,
            },
            None => ConnState::default(),
        }
    }
    fn set_window(&mut self, c: usize, n: usize) {
        if let Some(id) = self.sim_id(c) {
            self.net.set_window(id, n);
            self.settle();
        }
    }
    fn add_window(&mut self, c: usize, n: usize) {
        if let Some(id) = self.sim_id(c) {
            self.net.add_window(id, n);
            self.settle();
        }
    }
    fn set_read_cap(&mut self, c: usize, n: usize) {
        if let Some(id) = self.sim_id(c) {
            self.net.set_read_cap(id, n);
        }
    }
    fn set_write_cap(&mut self, c: usize, n: usize) {
        if let Some(id) = self.sim_id(c) {
            self.net.set_write_cap(id, n);
        }
    }
    fn accept_error(&mut self, errno: i32) {
        self.net.push_accept_error(self.listener, errno);
        self.settle();
    }
    fn probe(&self) -> Option<StoreProbe> {
        Some(self.stack.probe())
    }
    fn record_len(&self, key: &[u8]) -> Option<u64> {
        self.stack.record_len(key)
    }
    fn take_panics(&mut self) -> Vec<String> {
        let mut p = std::mem::take(&mut self.panics);
        p.extend(stack::take_probe_panics());
        if self.livelock {
            self.livelock = false;
            p.push("LIVELOCK: the server did not reach quiescence within the poll budget at harness:0".to_string());
        }
        p
    }
    fn ring(&self) -> &'static str {
        "N"
    }
}
