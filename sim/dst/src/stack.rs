//! Construction of the real store stack (MemoryStore [+ RandomPolicy]) under
//! simulator-owned knobs, the simulated Timer, panic capture and store probes.
#![allow(dead_code)]
use crate::driver::StoreProbe;
use crate::scenario::{Knobs, Policy};
use memcrs::cache::cache::Cache;
use memcrs::memcache::random_policy::RandomPolicy;
use memcrs::memory_store::store::MemoryStore;
use memcrs::server::timer::Timer;
use std::cell::RefCell;
use std::sync::atomic::{AtomicU64, Ordering};
use std::sync::Arc;

/// Simulated server clock (trait seam `server::timer::Timer`).
pub struct SimTimer {
    secs: AtomicU64,
}

impl SimTimer {
    pub fn new(start: u64) -> SimTimer {
        SimTimer {
            secs: AtomicU64::new(start),
        }
    }
    pub fn set(&self, v: u64) {
        self.secs.store(v, Ordering::SeqCst);
    }
    pub fn add(&self, v: u64) {
        self.secs.fetch_add(v, Ordering::SeqCst);
    }
    pub fn peek(&self) -> u64 {
        self.secs.load(Ordering::SeqCst)
    }
}

impl Timer for SimTimer {
    fn timestamp(&self) -> u64 {
        simseam::sched::clock_point();
        self.secs.load(Ordering::SeqCst)
    }
}

pub struct StoreStack {
    pub cache: Arc<dyn Cache + Send + Sync>,
    pub inner: Arc<MemoryStore>,
    pub policy: Option<Arc<RandomPolicy>>,
}

pub fn build_store(knobs: &Knobs, timer: Arc<dyn Timer + Send + Sync>) -> StoreStack {
    simseam::knobs::set_hash_seed(knobs.hash_seed);
    simseam::knobs::set_shard_amount(knobs.shards);
    simseam::rng::seed(knobs.rng_seed);
    let inner = Arc::new(MemoryStore::new(timer));
    match knobs.policy {
        Policy::None => StoreStack {
            cache: inner.clone(),
            inner,
            policy: None,
        },
        Policy::Random => {
            let p = Arc::new(RandomPolicy::new(inner.clone(), knobs.memory_limit));
            StoreStack {
                cache: p.clone(),
                inner,
                policy: Some(p),
            }
        }
    }
}

/// The harness's own calls into the store (probes, the sequential phases of ring T)
/// execute code under test: a panic in there belongs to that code, not to the harness.
/// It is recorded like any other (PROBE_PANICS), never reported as a harness error.
pub fn guarded<R>(f: impl FnOnce() -> R) -> Option<R> {
    let was = QUIET.with(|q| *q.borrow());
    capture_panics(true);
    let r = std::panic::catch_unwind(std::panic::AssertUnwindSafe(f));
    capture_panics(was);
    match r {
        Ok(v) => Some(v),
        Err(e) => {
            if e.downcast_ref::<simseam::sched::SchedAbort>().is_some() {
                std::panic::resume_unwind(e);
            }
            let msgs = take_panics();
            PROBE_PANICS.with(|p| p.borrow_mut().extend(msgs));
            None
        }
    }
}

thread_local! {
    static PROBE_PANICS: RefCell<Vec<String>> = const { RefCell::new(Vec::new()) };
}

/// Panics of the code under test raised inside `guarded` calls on this thread.
pub fn take_probe_panics() -> Vec<String> {
    PROBE_PANICS.with(|p| std::mem::take(&mut *p.borrow_mut()))
}

impl StoreStack {
    pub fn record_len(&self, key: &[u8]) -> Option<u64> {
        use memcrs::cache::cache::impl_details::CacheImplDetails;
        let k = bytes::Bytes::copy_from_slice(key);
        guarded(|| self.inner.get_by_key(&k).ok().map(|r| r.len() as u64)).flatten()
    }

    /// Σ Record::len() over the inner store, through the public read-only API.
    pub fn probe(&self) -> StoreProbe {
        guarded(|| self.probe_inner()).unwrap_or_default()
    }

    fn probe_inner(&self) -> StoreProbe {
        // iterate through the public Cache API: a predicate that never removes
        let acc = Arc::new((AtomicU64::new(0), AtomicU64::new(0)));
        let acc2 = acc.clone();
        let _ = self.inner.remove_if(&mut move |_k, rec| {
            acc2.0.fetch_add(rec.len() as u64, Ordering::Relaxed);
            acc2.1.fetch_add(1, Ordering::Relaxed);
            false
        });
        let bytes = acc.0.load(Ordering::Relaxed);
        let items = acc.1.load(Ordering::Relaxed);
        StoreProbe {
            stored_bytes: bytes,
            items,
            accounted: self.policy.as_ref().map(|p| p.verif_memory_usage()),
        }
    }
}

// ---------------- panic capture ----------------

thread_local! {
    static PANICS: RefCell<Vec<String>> = const { RefCell::new(Vec::new()) };
    static QUIET: RefCell<bool> = const { RefCell::new(false) };
    /// set on every thread the harness itself starts (and on the main thread); a thread without
    /// it was started by the code under test (runtime_builder's listener and worker threads)
    static HARNESS_THREAD: RefCell<bool> = const { RefCell::new(false) };
}

/// Panics on threads the code under test started itself (start-up probes of C20).
static FOREIGN_PANICS: std::sync::Mutex<Vec<String>> = std::sync::Mutex::new(Vec::new());

pub fn take_foreign_panics() -> Vec<String> {
    std::mem::take(&mut *FOREIGN_PANICS.lock().unwrap_or_else(|e| e.into_inner()))
}

pub fn install_panic_hook() {
    HARNESS_THREAD.with(|h| *h.borrow_mut() = true);
    let verbose = std::env::var("VERIF_DEBUG").is_ok();
    let default = std::panic::take_hook();
    std::panic::set_hook(Box::new(move |info| {
        let quiet = QUIET.with(|q| *q.borrow());
        if info.payload().downcast_ref::<simseam::sched::SchedAbort>().is_some() {
            return;
        }
        let msg = if let Some(s) = info.payload().downcast_ref::<&str>() {
            s.to_string()
        } else if let Some(s) = info.payload().downcast_ref::<String>() {
            s.clone()
        } else {
            "<non-string panic>".to_string()
        };
        let loc = info
            .location()
            .map(|l| format!("{}:{}", l.file(), l.line()))
            .unwrap_or_default();
        if quiet {
            PANICS.with(|p| p.borrow_mut().push(format!("{} at {}", msg, loc)));
            if verbose {
                eprintln!("[captured panic] {} at {}", msg, loc);
            }
        } else if !HARNESS_THREAD.with(|h| *h.borrow()) {
            // a thread the server created for itself: the panic belongs to the code under test
            FOREIGN_PANICS.lock().unwrap_or_else(|e| e.into_inner()).push(format!("{} at {}", msg, loc));
            if verbose {
                eprintln!("[captured panic on a server thread] {} at {}", msg, loc);
            }
        } else {
            // a panic outside the code under test is a bug of the harness itself:
            // never report it as a violation
            default(info);
            eprintln!("harness error: internal panic in the simulator (see above)");
            std::process::exit(2);
        }
    }));
}

/// Panics on this thread are recorded instead of printed while `on`.
pub fn capture_panics(on: bool) {
    QUIET.with(|q| *q.borrow_mut() = on);
}

pub fn take_panics() -> Vec<String> {
    PANICS.with(|p| std::mem::take(&mut *p.borrow_mut()))
}

/// Per worker-thread initialisation.
pub fn install_thread() {
    HARNESS_THREAD.with(|h| *h.borrow_mut() = true);
    capture_panics(false);
}
