//! One integer decides everything: splitmix64 seeding, xoshiro256** streams,
//! named sub-streams so that adding a fault kind does not shift the workload.
#[derive(Clone, Debug)]
pub struct Rng {
    s: [u64; 4],
}

pub fn splitmix64(x: &mut u64) -> u64 {
    *x = x.wrapping_add(0x9e37_79b9_7f4a_7c15);
    let mut z = *x;
    z = (z ^ (z >> 30)).wrapping_mul(0xbf58_476d_1ce4_e5b9);
    z = (z ^ (z >> 27)).wrapping_mul(0x94d0_49bb_1331_11eb);
    z ^ (z >> 31)
}

/// Mix several integers into one seed.
pub fn mix(parts: &[u64]) -> u64 {
    let mut h = 0x243f_6a88_85a3_08d3u64;
    for &p in parts {
        let mut x = h ^ p;
        h = splitmix64(&mut x) ^ h.rotate_left(17);
    }
    h
}

pub fn str_hash(s: &str) -> u64 {
    let mut h = 0xcbf2_9ce4_8422_2325u64;
    for b in s.bytes() {
        h ^= b as u64;
        h = h.wrapping_mul(0x0000_0100_0000_01b3);
    }
    h
}

impl Rng {
    pub fn new(seed: u64) -> Rng {
        let mut x = seed;
        let s = [
            splitmix64(&mut x),
            splitmix64(&mut x),
            splitmix64(&mut x),
            splitmix64(&mut x),
        ];
        Rng { s }
    }
    /// Independent sub-stream by purpose.
    pub fn sub(seed: u64, purpose: &str) -> Rng {
        Rng::new(mix(&[seed, str_hash(purpose)]))
    }
    pub fn next(&mut self) -> u64 {
        let r = self.s[1].wrapping_mul(5).rotate_left(7).wrapping_mul(9);
        let t = self.s[1] << 17;
        self.s[2] ^= self.s[0];
        self.s[3] ^= self.s[1];
        self.s[1] ^= self.s[2];
        self.s[0] ^= self.s[3];
        self.s[2] ^= t;
        self.s[3] = self.s[3].rotate_left(45);
        r
    }
    /// uniform in 0..n (n > 0)
    pub fn below(&mut self, n: u64) -> u64 {
        debug_assert!(n > 0);
        self.next() % n
    }
    pub fn range(&mut self, lo: u64, hi_incl: u64) -> u64 {
        lo + self.below(hi_incl - lo + 1)
    }
    pub fn usize(&mut self, n: usize) -> usize {
        self.below(n as u64) as usize
    }
    pub fn chance(&mut self, num: u64, den: u64) -> bool {
        self.below(den) < num
    }
    pub fn pick<'a, T>(&mut self, xs: &'a [T]) -> &'a T {
        &xs[self.usize(xs.len())]
    }
    /// weighted index
    pub fn weighted(&mut self, w: &[u32]) -> usize {
        let total: u64 = w.iter().map(|&x| x as u64).sum();
        let mut r = self.below(total.max(1));
        for (i, &x) in w.iter().enumerate() {
            if r < x as u64 {
                return i;
            }
            r -= x as u64;
        }
        w.len() - 1
    }
    pub fn bytes(&mut self, n: usize) -> Vec<u8> {
        (0..n).map(|_| self.next() as u8).collect()
    }
}

/// FNV-style rolling hash used for event-log fingerprints.
#[derive(Clone, Copy, Debug)]
pub struct Fp(pub u64);
impl Fp {
    pub fn new() -> Fp {
        Fp(0xcbf2_9ce4_8422_2325)
    }
    pub fn u8(&mut self, b: u8) {
        self.0 ^= b as u64;
        self.0 = self.0.wrapping_mul(0x0000_0100_0000_01b3);
    }
    pub fn u64(&mut self, v: u64) {
        for b in v.to_le_bytes() {
            self.u8(b);
        }
    }
    pub fn bytes(&mut self, bs: &[u8]) {
        self.u64(bs.len() as u64);
        for &b in bs {
            self.u8(b);
        }
    }
    pub fn str(&mut self, s: &str) {
        self.bytes(s.as_bytes());
    }
}
