#!/usr/bin/env python3
"""Regenerate /verif/sim/ws/memcrs/Cargo.toml from /repo/memcrs/Cargo.toml.

Same package name and dependencies; the library sources are /repo's working
tree (`[lib] path`), plus the `simseam` seam crate and tokio's `test-util`
feature (paused clock). /repo's Cargo.toml and Cargo.lock are never touched.
"""
import os, re, sys

REPO = os.environ.get("VERIF_REPO", "/repo")
HERE = os.path.dirname(os.path.abspath(__file__))
src = open(os.path.join(REPO, "memcrs", "Cargo.toml")).read()

# [lib] path -> absolute path into the repo
lib_path = os.path.join(REPO, "memcrs", "src", "lib.rs")
src, n = re.subn(r'(\[lib\][^\[]*?path\s*=\s*)"[^"]*"', lambda m: m.group(1) + '"%s"' % lib_path, src, count=1, flags=re.S)
if n == 0:
    src += '\n[lib]\nname = "memcrs"\npath = "%s"\n' % lib_path

# tokio: add test-util
def add_feature(m):
    feats = m.group(2)
    if "test-util" in feats:
        return m.group(0)
    return m.group(1) + feats.rstrip() + (', ' if feats.strip() else '') + '"test-util"' + m.group(3)
src, n = re.subn(r'(tokio\s*=\s*\{[^}]*features\s*=\s*\[)([^\]]*)(\])', add_feature, src, count=1)
if n == 0:
    sys.stderr.write("gen_shadow: could not find tokio features\n")
    sys.exit(2)

# add simseam right after [dependencies]
src, n = re.subn(r'(\n\[dependencies\]\n)', r'\1simseam = { path = "../../simseam" }\n', src, count=1)
if n == 0:
    sys.stderr.write("gen_shadow: no [dependencies]\n")
    sys.exit(2)

out = os.path.join(HERE, "ws", "memcrs", "Cargo.toml")
os.makedirs(os.path.dirname(out), exist_ok=True)
old = open(out).read() if os.path.exists(out) else None
if old != src:
    open(out, "w").write(src)
